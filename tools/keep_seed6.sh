#!/bin/sh
# tools/keep_seed5.sh <Cxx> : confirm both round-6 changes of a property and copy the confirmed ones to seeded/<Cxx>{g,h}/
id="$1"
for x in i j; do
  r=$(/verif/tools/confirm_seed6.sh "$id" "$x" 2>&1 | tail -1)
  echo "$r"
  case "$r" in
    *"demo_unchanged_rc=0 demo_patched_rc=1 tests: 150 passed"*)
      d=/verif/seeded/$id$x; mkdir -p "$d"
      cp /tmp/seed6/out/$id/patch_$x.diff "$d/patch.diff"; cp /tmp/seed6/out/$id/demo_$x.py "$d/demo.py"; cp /tmp/seed6/out/$id/notes_$x.md "$d/notes.md"
      echo "kept $id$x";;
    *) echo "NOT CONFIRMED $id$x";;
  esac
done
