#!/venv/bin/python
"""Applies every behaviour-preserving change kept under benign/<id>/ to a SCRATCH worktree of /repo's HEAD, runs the
unedited test-suite and the quick checks of the properties that depend on the touched code, and records whether any
of them raised an alarm (none may): benign/<id>/meta.json.  /repo itself is never touched."""
import json
import os
import subprocess
import sys
import tempfile

V = os.path.dirname(os.path.dirname(os.path.abspath(__file__)))
AREA = {"B1": ["C04", "C05", "C14", "C20"],
        "B2": ["C13", "C08", "C09", "C16", "C01"],
        "B3": ["C03", "C06", "C10", "C12", "C02"],
        "B4": ["C16", "C17"],
        "B5": ["C07", "C18", "C19"]}
only = sys.argv[1:]
SCR = tempfile.mkdtemp(prefix="benignrepo-", dir="/var/tmp")
R = os.path.join(SCR, "repo")
subprocess.run(["git", "-C", "/repo", "worktree", "add", "-q", "--detach", R, "HEAD"], check=True)
try:
    for d in sorted(os.listdir(os.path.join(V, "benign"))):
        if only and d not in only and d[:2] not in only:
            continue
        sd = os.path.join(V, "benign", d)
        subprocess.run(["git", "-C", R, "checkout", "-q", "--", "."])
        subprocess.run(["git", "-C", R, "clean", "-qfd"])
        ap = subprocess.run(["git", "-C", R, "apply", os.path.join(sd, "patch.diff")], capture_output=True, text=True)
        res = {"applied": ap.returncode == 0, "checks": {}}
        env = dict(os.environ, CGSMILES_REPO=R, PBR_VERSION="0.0.1")
        if res["applied"]:
            res["tests_with_change"] = subprocess.run(
                "cd %s && /venv/bin/python -m pytest -q -p no:cacheprovider cgsmiles 2>&1 | tail -1" % R, shell=True,
                capture_output=True, text=True, env=env).stdout.strip()
            for pid in AREA[d[:2]]:
                p = subprocess.run([os.path.join(V, "check"), pid, "--tier", "quick"], capture_output=True, text=True, cwd=V, env=env)
                viol = [l for l in p.stdout.splitlines() if l.startswith("VIOLATION")]
                res["checks"][pid] = {"rc": p.returncode, "violations": len(viol),
                                      "clauses": sorted({l.split("clause=")[-1] for l in viol})[:6]}
        res["alarms"] = sorted(k for k, v in res["checks"].items() if v["rc"] != 0)
        json.dump({"id": d, "kind": "behaviour-preserving change (no property is violated)", "patch": "patch.diff",
                   "ran": "tools/benign_matrix.py: patch applied to a scratch worktree of /repo HEAD, CGSMILES_REPO=<copy> ./check <Cxx> --tier quick",
                   "result": res, "quiet": res["applied"] and not res["alarms"]}, open(os.path.join(sd, "meta.json"), "w"), indent=1)
        print(d, "quiet" if res["applied"] and not res["alarms"] else "ALARM" if res["applied"] else "NOT APPLIED", res["alarms"],
              {k: v["clauses"] for k, v in res["checks"].items() if v["rc"] != 0}, flush=True)
finally:
    subprocess.run(["git", "-C", "/repo", "worktree", "remove", "--force", R])
    subprocess.run(["rm", "-rf", SCR])
