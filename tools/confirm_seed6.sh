#!/bin/sh
# tools/confirm_seed5.sh <Cxx> <g|h> : confirm a round-6 seeded change on a scratch worktree of the CURRENT /repo HEAD
id="$1"; x="$2"; src=/tmp/seed6/out/$id
wt=/var/tmp/confirm6_$id$x
rm -rf "$wt"; git -C /repo worktree add -q --detach "$wt" HEAD || exit 2
cd "$wt" || exit 2
export PBR_VERSION=0.0.1 PYTHONDONTWRITEBYTECODE=1
/venv/bin/python "$src/demo_$x.py" >/dev/null 2>&1; d0=$?
git apply "$src/patch_$x.diff" || { echo "$id $x: patch does not apply"; cd /; git -C /repo worktree remove --force "$wt"; exit 3; }
t=$(/venv/bin/python -m pytest -q -p no:cacheprovider cgsmiles 2>&1 | tail -1)
/venv/bin/python "$src/demo_$x.py" >/dev/null 2>&1; d1=$?
cd /; git -C /repo worktree remove --force "$wt"
echo "$id $x: demo_unchanged_rc=$d0 demo_patched_rc=$d1 tests: $t"
