#!/venv/bin/python
"""Applies every kept seeded change to a SCRATCH COPY of /repo's HEAD (under /var/tmp, removed afterwards), runs the
property's quick check against that copy (CGSMILES_REPO) and records the outcome in seeded/<id>/meta.json.
/repo itself is never touched, so this can run while other checks use /repo."""
import json
import os
import subprocess
import sys

V = os.path.dirname(os.path.dirname(os.path.abspath(__file__)))
props = {json.loads(l)["id"]: json.loads(l) for l in open(os.path.join(V, "properties.jsonl"))}
only = sys.argv[1:]
import shutil
import tempfile

# checks of the code a property depends on (reader, tokenizer), tried when the property's own check stays quiet
RELATED = {"C01": ["C04", "C13"], "C11": ["C04", "C05"], "C03": ["C13", "C01"], "C15": ["C13", "C12"], "C10": ["C13", "C06"], "C06": ["C13", "C12", "C10"],
           "C14": ["C02", "C05"], "C02": ["C13", "C10", "C06", "C12"], "C20": ["C04"], "C13": ["C14", "C02"], "C09": ["C16", "C12"]}

SCR = tempfile.mkdtemp(prefix="seedrepo-", dir="/var/tmp")
subprocess.run(["git", "-C", "/repo", "worktree", "add", "-q", "--detach", os.path.join(SCR, "repo"), "HEAD"], check=True)
R = os.path.join(SCR, "repo")
try:
    for d in sorted(os.listdir(os.path.join(V, "seeded"))):
        if only and d not in only and d[:3] not in only and not any(d.endswith(o[1:]) for o in only if o.startswith("*")):
            continue
        sd = os.path.join(V, "seeded", d)
        pid = d[:3]
        patch = os.path.join(sd, "patch_current.diff" if os.path.exists(os.path.join(sd, "patch_current.diff")) else "patch.diff")
        subprocess.run(["git", "-C", R, "checkout", "-q", "--", "."])
        ap = subprocess.run(["git", "-C", R, "apply", patch], capture_output=True, text=True)
        if ap.returncode != 0:
            ap = subprocess.run("cd %s && patch -p1 -s -F3 < %s" % (R, patch), shell=True, capture_output=True, text=True)
        applied = ap.returncode == 0
        subprocess.run("cd %s && find . -name '*.orig' -o -name '*.rej' | xargs rm -f" % R, shell=True)
        res = {"applied": applied}
        env = dict(os.environ, CGSMILES_REPO=R, PBR_VERSION="0.0.1")
        if applied:
            t = subprocess.run("cd %s && /venv/bin/python -m pytest -q -p no:cacheprovider cgsmiles 2>&1 | tail -1" % R, shell=True,
                               capture_output=True, text=True, env=env).stdout.strip()
            dm = subprocess.run("cd %s && /venv/bin/python %s/demo.py" % (R, sd), shell=True, capture_output=True, text=True, env=env)
            p = subprocess.run([os.path.join(V, "check"), pid, "--tier", "quick"], capture_output=True, text=True, cwd=V, env=env)
            viol = [l for l in p.stdout.splitlines() if l.startswith("VIOLATION")]
            res.update({"tests_with_change": t, "demo_rc_with_change_on_current_tree": dm.returncode, "check": pid, "check_rc": p.returncode,
                        "violations": len(viol), "first_clauses": sorted({l.split("clause=")[-1] for l in viol})[:6]})
            # a change that the property's own check misses may still be caught by the check of the code it touches
            if p.returncode == 0:
                for other in RELATED.get(pid, []):
                    q = subprocess.run([os.path.join(V, "check"), other, "--tier", "quick"], capture_output=True, text=True, cwd=V, env=env)
                    if q.returncode == 1:
                        v2 = [l for l in q.stdout.splitlines() if l.startswith("VIOLATION")]
                        res["also_detected_by"] = other
                        res["also_clauses"] = sorted({l.split("clause=")[-1] for l in v2})[:4]
                        break
        round2 = d[3:] in ("c", "d", "e", "f", "g", "h")
        round6 = d[3:] in ("i", "j")
        round5 = d[3:] in ("g", "h") and pid in ("C07", "C08", "C11", "C13", "C14", "C18", "C19", "C20")
        meta = {"id": d, "breaks_property": pid, "property_title": props[pid]["title"],
                "patch": os.path.basename(patch), "needs_to_manifest": "see notes.md",
                "confirmed": ("tools/confirm_seed6.sh: scratch worktree of the repaired tree (HEAD 43d17b1)" if round6 else
                              "tools/confirm_seed5.sh: scratch worktree of the repaired tree (HEAD 43d17b1)" if round5 else
                              "tools/confirm_seed2.sh: scratch worktree of the repaired tree" if round2 else
                              "tools/confirm_seed.sh: scratch worktree of the pinned commit") +
                             ": test-suite 150 passed with the change; demo exits 0 without and 1 with it",
                "ran": "tools/seed_matrix.py: patch applied to a scratch worktree of /repo HEAD, CGSMILES_REPO=<copy> ./check %s --tier quick" % pid,
                "result": res, "detected": bool(res.get("check_rc") == 1),
                "detected_by_related_check": res.get("also_detected_by")}
        json.dump(meta, open(os.path.join(sd, "meta.json"), "w"), indent=1)
        print(d, "DETECTED" if meta["detected"] else ("detected-by-" + res["also_detected_by"] if res.get("also_detected_by") else "missed"), res, flush=True)
finally:
    subprocess.run(["git", "-C", "/repo", "worktree", "remove", "--force", R])
    shutil.rmtree(SCR, ignore_errors=True)
