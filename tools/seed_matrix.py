#!/venv/bin/python
"""Applies every kept seeded change to /repo (never committed), runs the property's quick check, undoes it,
and records the outcome in seeded/<id>/meta.json."""
import json
import os
import subprocess
import sys

V = os.path.dirname(os.path.dirname(os.path.abspath(__file__)))
props = {json.loads(l)["id"]: json.loads(l) for l in open(os.path.join(V, "properties.jsonl"))}
only = sys.argv[1:]
for d in sorted(os.listdir(os.path.join(V, "seeded"))):
    if only and d not in only and d[:3] not in only:
        continue
    sd = os.path.join(V, "seeded", d)
    pid = d[:3]
    patch = os.path.join(sd, "patch_current.diff" if os.path.exists(os.path.join(sd, "patch_current.diff")) else "patch.diff")
    assert subprocess.run(["git", "-C", "/repo", "status", "--porcelain", "--untracked-files=no"], capture_output=True, text=True).stdout == ""
    ap = subprocess.run(["git", "-C", "/repo", "apply", patch], capture_output=True, text=True)
    if ap.returncode != 0:
        ap = subprocess.run("cd /repo && patch -p1 -s -F3 < %s" % patch, shell=True, capture_output=True, text=True)
    applied = ap.returncode == 0
    subprocess.run("cd /repo && find . -name '*.orig' -o -name '*.rej' | xargs rm -f", shell=True)
    res = {"applied": applied}
    if applied:
        t = subprocess.run("cd /repo && PBR_VERSION=0.0.1 /venv/bin/python -m pytest -q -p no:cacheprovider cgsmiles 2>&1 | tail -1", shell=True, capture_output=True, text=True).stdout.strip()
        dm = subprocess.run("cd /repo && PBR_VERSION=0.0.1 /venv/bin/python %s/demo.py" % sd, shell=True, capture_output=True, text=True)
        p = subprocess.run([os.path.join(V, "check"), pid, "--tier", "quick"], capture_output=True, text=True, cwd=V)
        viol = [l for l in p.stdout.splitlines() if l.startswith("VIOLATION")]
        res.update({"tests_with_change": t, "demo_rc_with_change_on_current_tree": dm.returncode, "check": pid, "check_rc": p.returncode,
                    "violations": len(viol), "first_clauses": sorted({l.split("clause=")[-1] for l in viol})[:6]})
    subprocess.run(["git", "-C", "/repo", "checkout", "--", "."])
    meta = {"id": d, "breaks_property": pid, "property_title": props[pid]["title"],
            "patch": os.path.basename(patch), "needs_to_manifest": "see notes.md",
            "confirmed_on_pristine": "tools/confirm_seed.sh: test-suite 150 passed with the change; demo exits 0 without and 1 with it (scratch worktree of the pinned commit)",
            "ran": "tools/seed_matrix.py: git apply to /repo, ./check %s --tier quick, git checkout -- ." % pid,
            "result": res, "detected": bool(res.get("check_rc") == 1)}
    json.dump(meta, open(os.path.join(sd, "meta.json"), "w"), indent=1)
    print(d, "DETECTED" if meta["detected"] else "missed", res)
