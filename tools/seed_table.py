#!/venv/bin/python
"""Print the markdown table of seeded changes (DESIGN.md section 12) from seeded/<id>/meta.json and notes.md."""
import fnmatch
import json
import os
import re
import sys

ROOT = os.path.join(os.path.dirname(os.path.abspath(__file__)), "..", "seeded")


def first_line(sid):
    p = os.path.join(ROOT, sid, "notes.md")
    if not os.path.exists(p):
        return ""
    for line in open(p, encoding="utf8"):
        line = line.strip().lstrip("-*# ").strip()
        if len(line) > 25 and not line.lower().startswith(("c0", "c1", "c2", "change d", "change c")) or "hange" in line[:12]:
            return re.sub(r"\s+", " ", line.replace("|", "/"))[:150]
    return ""


pats = sys.argv[1:] or ["*"]
print("| id | change (first line of the author's note) | detected | failing clauses |")
print("|---|---|---|---|")
for sid in sorted(os.listdir(ROOT)):
    if not any(fnmatch.fnmatch(sid, p) for p in pats):
        continue
    m = json.load(open(os.path.join(ROOT, sid, "meta.json")))
    res = m.get("result", {})
    det = "yes" if m.get("detected") else ("by " + str(m.get("detected_by_related_check")) if m.get("detected_by_related_check") else "NO")
    print("| %s | %s | %s | %s |" % (sid, first_line(sid), det, ", ".join(res.get("first_clauses", []))))
