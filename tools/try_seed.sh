#!/bin/sh
# tools/try_seed.sh <patch.diff> <check id>...   : apply a seeded change to /repo, run the quick checks, undo it.
patch="$1"; shift
cd /repo || exit 2
if [ -n "$(git status --porcelain --untracked-files=no)" ]; then echo "/repo dirty"; exit 2; fi
if ! git apply "$patch" 2>/dev/null; then
  if ! patch -p1 -s -F3 < "$patch"; then echo "PATCH DOES NOT APPLY"; git checkout -- .; find . -name '*.orig' -o -name '*.rej' | xargs rm -f; exit 3; fi
fi
find . -name '*.orig' -o -name '*.rej' | xargs rm -f
cd /verif
for id in "$@"; do
  ./check "$id" --tier "${TIER:-quick}" > /var/tmp/try_seed_$id.log 2>&1; rc=$?
  echo "$id rc=$rc $(grep -c '^VIOLATION' /var/tmp/try_seed_$id.log) violations; $(grep '^VIOLATION' /var/tmp/try_seed_$id.log | head -2 | tr '\n' ' ')"
done
git -C /repo checkout -- .
