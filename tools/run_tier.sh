#!/bin/sh
# tools/run_tier.sh <tier> [ids...] : run the given checks of one tier in sequence, log time and verdict (for vp run)
tier="$1"; shift
ids="${*:-C04 C05 C13 C14 C01 C10 C15 C06 C07 C08 C16 C17 C18 C19 C02 C03 C09 C11 C12 C20}"
for c in $ids; do
  s=$(date +%s); ./check $c --tier $tier > out_$c.log 2>&1; rc=$?; e=$(date +%s)
  echo "$c tier=$tier rc=$rc $((e-s))s | $(grep -c '^VIOLATION' out_$c.log) violations | $(tail -1 out_$c.log | cut -c1-160)"
done
