#!/bin/sh
# tools/seed_sweep.sh <seeds...> : quick tier of every check under several VERIF_SEED values (false-alarm hunt)
mkdir -p /var/tmp/sweep
for s in "$@"; do
  for c in C01 C02 C03 C04 C05 C06 C07 C08 C09 C10 C11 C12 C13 C14 C15 C16 C17 C18 C19 C20; do
    VERIF_SEED=$s ./check $c --tier quick > /var/tmp/sweep/sweep_${c}_$s.log 2>&1; rc=$?
    echo "seed=$s $c rc=$rc $(grep -c '^VIOLATION' /var/tmp/sweep/sweep_${c}_$s.log) | $(tail -1 /var/tmp/sweep/sweep_${c}_$s.log | cut -c1-140)"
  done
done
