----------------------------- MODULE SamplerMC -----------------------------
(***************************************************************************)
(* Exhaustive model of the sampler's growth process: for a configuration   *)
(* of SamplerCfgs and a target weight, every trajectory Start, Grow, ...,   *)
(* Grow until the target is reached (every choice of start fragment, site  *)
(* atom, site descriptor, partner descriptor, fragment and partner atom    *)
(* that the specification enables).  The C16/C17 predicates are invariants; *)
(* finished trajectories are emitted and forced through the real sampler   *)
(* with a scripted RNG (a choice the code does not offer is a divergence). *)
(***************************************************************************)
EXTENDS SamplerCfg, SamplerCfgs, Json

CONSTANTS CfgIds, TargetIdx, MaxSteps

VARIABLES kid, S
vars == <<kid, S>>

Raw == AllRaw[kid]
SpecMasses(raw) ==
  LET K0 == CfgOf(raw, [i \in DOMAIN raw.frags |-> 0], 0) IN
  [i \in DOMAIN raw.frags |-> IF raw.coarse THEN raw.masses[i] ELSE MassOf(K0, i)]
K == CfgOf(Raw, SpecMasses(Raw), Raw.targets[IF TargetIdx <= Len(Raw.targets) THEN TargetIdx ELSE Len(Raw.targets)])

Init == kid \in CfgIds /\ S = InitS
StartAct == /\ S.copies = <<>>
            /\ \E f \in DOMAIN K.frags : S' = Start(K, S, f)
            /\ UNCHANGED kid
GrowAct == /\ S.copies # <<>> /\ ~Finished(K, S) /\ Len(S.links) < MaxSteps
           /\ \E site \in DOMAIN S.open : \E d \in SToSet(S.open[site]) : \E p \in Compl(K, d) :
                \E f \in DOMAIN K.frags : \E t \in DOMAIN K.frags[f].desc :
                   /\ GrowEnabled(K, S, site, d, p, f, t)
                   /\ S' = Grow(K, S, site, d, p, f, t)
           /\ UNCHANGED kid
Next == StartAct \/ GrowAct
Spec == Init /\ [][Next]_vars

(* ---- termination: the weight is a variant function; under fairness every run ends finished, at a dead end or at the bound ---- *)
FairSpec == Spec /\ WF_vars(Next)
InvPositiveMass == \A f \in DOMAIN K.frags : K.frags[f].mass > 0       \* assumption of the argument (a zero mass would loop)
WeightGrows == [][S.copies # <<>> => S'.weight > S.weight]_vars
Terminates == <>(S.copies # <<>> /\ (Finished(K, S) \/ ~SomeEnabled(K, S) \/ Len(S.links) >= MaxSteps))

InvTree == Tree(S)
InvComplementary == Complementary(K, S)
InvOnce == S.copies # <<>> => Once(K, S)
InvNeverZero == NeverZero(K, S)
InvTerminalClosesAtom == TerminalClosesAtom(K, S)
InvTerminalsWithdrawn == TerminalsWithdrawn(K, S)
InvStopRule == StopRule(K, S)
(* every copy keeps at most the descriptors of its template *)
InvOpenWithinTemplate == \A x \in DOMAIN S.open : \A d \in SToSet(S.open[x]) :
    CountS(S.open[x], d) <= CountS(K.frags[S.copies[x[1]]].desc[x[2]], d)

Emit == Finished(K, S) =>
  PrintT(<<"G", kid, ToJson([kid |-> kid, copies |-> S.copies, links |-> S.links, weight |-> S.weight,
                              masses |-> SpecMasses(Raw), target |-> K.target])>>)
Ids3 == {1, 2, 3}
IdsAll == 1..Len(AllRaw)
=============================================================================
