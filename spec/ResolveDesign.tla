--------------------------- MODULE ResolveDesign ---------------------------
(***************************************************************************)
(* Design model of the connection phase of one resolution step             *)
(* (resolve.py: edges_from_bonding_descrpt): for every unit of every base  *)
(* edge, ANY compatible pair of still-free descriptor instances on the two *)
(* sides may be consumed (the implementation's edge order and first-match  *)
(* search are one resolution of this nondeterminism); a unit is skipped    *)
(* only when no compatible free pair exists.                               *)
(* TLC explores every configuration of a bounded universe (base graphs x   *)
(* template assignment x both conventions) and every pairing, and checks   *)
(* the C03 clauses in every reachable state and the count theorem in every *)
(* terminal state.                                                         *)
(***************************************************************************)
EXTENDS Resolve

CONSTANTS MaxNodes, Orders, TemplateNames

VARIABLES cfg, free, made, todo
vars == <<cfg, free, made, todo>>

(* ---- the template universe: descriptor lists per atom (atoms themselves do not matter here) ---- *)
Atom0 == [el |-> "C", v |-> "C", ar |-> FALSE, ch |-> 0, hc |-> -2, a |-> <<>>]
T(descs) == [atoms |-> [i \in DOMAIN descs |-> Atom0], bonds |-> {}, desc |-> descs]
Library ==
  "P" :> T(<< <<<<"$", "", 1>>>>, <<<<"$", "", 1>>>> >>)                       \* [$]C C[$]
  @@ "Q" :> T(<< <<<<">", "", 1>>>>, <<<<"<", "", 1>>>> >>)                    \* [>]C C[<]
  @@ "R" :> T(<< <<<<"$", "a", 1>>, <<"$", "b", 1>>>> >>)                      \* [$a][$b]C  (two on one atom)
  @@ "S" :> T(<< <<<<"$", "", 2>>>>, <<<<"$", "", 1>>, <<"$", "", 1>>>> >>)    \* [$]=C C[$][$] (order 2, surplus)
  @@ "U" :> T(<< <<<<"!", "", 1>>>>, <<<<"$", "a", 1>>>> >>)                   \* C[!] C[$a]
  @@ "W" :> T(<< <<<<">", "x", 1>>, <<"<", "x", 1>>>> >>)                      \* [>x][<x]C

Pairs(n) == {<<a, b>> \in (0..(n - 1)) \X (0..(n - 1)) : a < b}
BaseGraphs(n) == {S \in SUBSET {<<p[1], p[2], o>> : p \in Pairs(n), o \in Orders} :
                    \A e, f \in S : (e[1] = f[1] /\ e[2] = f[2]) => e = f}

Configs == UNION {{[names |-> nm, edges |-> es, lib |-> [x \in TemplateNames |-> Library[x]], legacy |-> lg, allAtom |-> FALSE] :
                     nm \in [1..n -> TemplateNames], es \in BaseGraphs(n), lg \in BOOLEAN} : n \in 1..MaxNodes}

AllInst(C) == DInst(C)
Init == /\ cfg \in Configs
        /\ free = {<<x[1], x[2], x[3]>> : x \in AllInst(cfg)}
        /\ made = {}
        /\ todo = [e \in cfg.edges |-> e[3]]

D(C, i) == Tpl(C, i[1]).desc[i[2] + 1][i[3]]
CompatFree(e) == {<<l, r>> \in free \X free : l[1] = e[1] /\ r[1] = e[2] /\ Compatible(D(cfg, l), D(cfg, r), cfg.legacy)}

Connect == \E e \in cfg.edges : /\ todo[e] > 0
              /\ \E p \in CompatFree(e) :
                    /\ free' = free \ {p[1], p[2]}
                    /\ made' = made \cup {[e |-> e, l |-> p[1], r |-> p[2]]}
                    /\ todo' = [todo EXCEPT ![e] = @ - 1]
              /\ UNCHANGED cfg
Skip == \E e \in cfg.edges : /\ todo[e] > 0 /\ CompatFree(e) = {}
            /\ todo' = [todo EXCEPT ![e] = 0] /\ UNCHANGED <<cfg, free, made>>
Next == Connect \/ Skip
Spec == Init /\ [][Next]_vars

Terminal == \A e \in cfg.edges : todo[e] = 0

(* ---- C03 as invariants of the design ---- *)
Once == \A m1, m2 \in made : m1 # m2 => {m1.l, m1.r} \cap {m2.l, m2.r} = {}
NeverFreeAndUsed == \A m \in made : m.l \notin free /\ m.r \notin free
Across == \A m \in made : m.l[1] = m.e[1] /\ m.r[1] = m.e[2] /\ m.e \in cfg.edges
CountLE == \A e \in cfg.edges : Cardinality({m \in made : m.e = e}) <= e[3]
Compat == \A m \in made : Compatible(D(cfg, m.l), D(cfg, m.r), cfg.legacy)
NoBondOnZero == \A e \in cfg.edges : e[3] = 0 => ~\E m \in made : m.e = e
(* equal annotated order under the label-sensitive convention *)
EqualOrder == cfg.legacy => \A m \in made : D(cfg, m.l)[3] = D(cfg, m.r)[3]
(* the count theorem: with a dedicated pair per unit, every maximal pairing is complete *)
DedicatedComplete == (Terminal /\ Dedicated(cfg)) => \A e \in cfg.edges : Cardinality({m \in made : m.e = e}) = e[3]
(* maximality: a unit is left unmade only if no compatible free pair remained when it was skipped *)
Maximal == Terminal => \A e \in cfg.edges : Cardinality({m \in made : m.e = e}) < e[3] => CompatFree(e) = {}

Ord012 == {0, 1, 2}
Ord12 == {1, 2}
TN3 == {"P", "R", "U"}
TN6 == {"P", "Q", "R", "S", "U", "W"}
TNq == {"P", "Q", "S", "U"}
=============================================================================
