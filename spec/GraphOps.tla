------------------------------ MODULE GraphOps ------------------------------
(***************************************************************************)
(* The graph bookkeeping under the resolver and the sampler                *)
(* (graph_utils.py: merge_graphs, sort_nodes_by_attr, annotate_fragments,  *)
(* set_atom_names_atomistic) as a workbench: one molecule graph, one       *)
(* action per library call, plus the plain networkx edits the callers do   *)
(* between them (bond between two copies, squash = share + drop).          *)
(*                                                                         *)
(* State g:                                                                *)
(*   nodes : Seq([key, fid, el, ez])  in ITERATION order (networkx keeps   *)
(*           insertion order; relabel_nodes(copy=True) keeps it too)       *)
(*           fid = fragment membership list, ez = node keys referred to    *)
(*   edges : {<<a, b, order>>}, a < b                                      *)
(* History ops (what was called) and out (what the last call returned) are *)
(* carried so that every behaviour can be replayed into the real functions *)
(* (spec -> code): the harness applies ops[1..n] and compares g and out.   *)
(*                                                                         *)
(* Design theorems checked here (they are what C02 / C12 / C15 / C16 lean  *)
(* on): keys stay unique; a merge appends one new fragment index and a     *)
(* block of consecutive keys; Sort yields keys 0..n-1, is idempotent,      *)
(* preserves the graph up to the renaming it reports and keeps every node  *)
(* reference pointing at the same node; Annotate covers every node exactly *)
(* by its membership list.                                                 *)
(***************************************************************************)
EXTENDS Naturals, Sequences, FiniteSets, TLC, Json

CONSTANTS Templates,   \* Seq([els : Seq(STRING), ez : Seq(Seq(Nat)), edges : {<<i, j, o>>}])  local keys 0..k-1
          MaxOps, MaxNodes, MaxMerges

VARIABLES g, ops, out
vars == <<g, ops, out>>

ToSet(s) == {s[i] : i \in DOMAIN s}
Max(S) == CHOOSE x \in S : \A y \in S : y <= x
Keys(G) == {G.nodes[i].key : i \in DOMAIN G.nodes}
NodeAt(G, k) == G.nodes[CHOOSE i \in DOMAIN G.nodes : G.nodes[i].key = k]
EPair(a, b, o) == IF a < b THEN <<a, b, o>> ELSE <<b, a, o>>
HasEdge(G, a, b) == \E e \in G.edges : {e[1], e[2]} = {a, b}

RECURSIVE LexLt(_, _)
LexLt(a, b) ==                       \* Python's list comparison
  IF a = <<>> THEN b # <<>>
  ELSE IF b = <<>> THEN FALSE
  ELSE IF Head(a) # Head(b) THEN Head(a) < Head(b)
  ELSE LexLt(Tail(a), Tail(b))

Empty == [nodes |-> <<>>, edges |-> {}]

(* ------------------------------- merge_graphs ---------------------------- *)
(* new keys follow the largest key; the new fragment index follows the      *)
(* largest index of the node with the largest key ("we assume that the last *)
(* id is always the largest")                                               *)
MergeOffset(G) == IF G.nodes = <<>> THEN 0 ELSE Max(Keys(G)) + 1
FragOffset(G)  == IF G.nodes = <<>> THEN 0 ELSE Max(ToSet(NodeAt(G, Max(Keys(G))).fid)) + 1
LastIsLargest(G) == G.nodes = <<>> \/ \A i \in DOMAIN G.nodes : \A f \in ToSet(G.nodes[i].fid) : f < FragOffset(G)

Merge(G, t) ==
  LET off == MergeOffset(G)  fo == FragOffset(G)  T == Templates[t] IN
  [ nodes |-> G.nodes \o [i \in DOMAIN T.els |->
                  [key |-> off + i - 1, fid |-> <<fo>>, el |-> T.els[i],
                   ez |-> [j \in DOMAIN T.ez[i] |-> T.ez[i][j] + off]]],
    edges |-> G.edges \cup {EPair(e[1] + off, e[2] + off, e[3]) : e \in T.edges} ]
Corr(G, t) == [i \in DOMAIN Templates[t].els |-> MergeOffset(G) + i - 1]     \* local key i-1 -> new key

(* ---------------------------- sort_nodes_by_attr ------------------------- *)
Less(m, n) == LexLt(m.fid, n.fid) \/ (m.fid = n.fid /\ m.key < n.key)
Rank(G, k) == Cardinality({i \in DOMAIN G.nodes : Less(G.nodes[i], NodeAt(G, k))})
Sort(G) ==
  [ nodes |-> [i \in DOMAIN G.nodes |->
                 [G.nodes[i] EXCEPT !.key = Rank(G, G.nodes[i].key),
                                    !.ez = [j \in DOMAIN G.nodes[i].ez |-> Rank(G, G.nodes[i].ez[j])]]],
    edges |-> {EPair(Rank(G, e[1]), Rank(G, e[2]), e[3]) : e \in G.edges} ]
RefsOK(G) == \A i \in DOMAIN G.nodes : \A j \in DOMAIN G.nodes[i].ez : G.nodes[i].ez[j] \in Keys(G)

(* ---------------------------- annotate_fragments ------------------------- *)
(* meta node f  ->  the induced subgraph on the nodes whose membership list contains f *)
FragIds(G) == UNION {ToSet(G.nodes[i].fid) : i \in DOMAIN G.nodes}
Members(G, f) == {G.nodes[i].key : i \in {j \in DOMAIN G.nodes : f \in ToSet(G.nodes[j].fid)}}
Annotate(G) == [f \in FragIds(G) |->
                  [nodes |-> Members(G, f),
                   edges |-> {<<e[1], e[2]>> : e \in {x \in G.edges : x[1] \in Members(G, f) /\ x[2] \in Members(G, f)}}]]

(* ------------------------- set_atom_names_atomistic ---------------------- *)
(* element + running count inside the fragment (nodes of a fragment in iteration order) *)
SingleMembership(G) == \A i \in DOMAIN G.nodes : Len(G.nodes[i].fid) = 1
PosInFrag(G, i) == Cardinality({j \in 1..(i - 1) : G.nodes[j].fid = G.nodes[i].fid})
Names(G) == [k \in Keys(G) |-> LET i == CHOOSE j \in DOMAIN G.nodes : G.nodes[j].key = k IN
                                 <<G.nodes[i].el, PosInFrag(G, i)>>]
(* the counter follows the keys only if, inside each fragment, iteration order is key order *)
IterIsKeyOrder(G) == \A i, j \in DOMAIN G.nodes : (i < j /\ G.nodes[i].fid = G.nodes[j].fid) => G.nodes[i].key < G.nodes[j].key

(* -------------------- the callers' own edits (plain networkx) ------------ *)
Bond(G, a, b, o) == [G EXCEPT !.edges = @ \cup {EPair(a, b, o)}]
(* squash_atoms: node b is contracted into node a, which inherits b's membership and edges *)
Squash(G, a, b) ==
  LET keep == SelectSeq(G.nodes, LAMBDA n : n.key # b)
      re(k) == IF k = b THEN a ELSE k IN
  [ nodes |-> [i \in DOMAIN keep |-> IF keep[i].key = a
                                     THEN [keep[i] EXCEPT !.fid = @ \o NodeAt(G, b).fid]
                                     ELSE keep[i]],
    edges |-> {EPair(re(e[1]), re(e[2]), e[3]) : e \in {x \in G.edges : {x[1], x[2]} # {a, b}}} ]

(* --------------------------------- actions ------------------------------- *)
NMerges == Cardinality({i \in DOMAIN ops : ops[i].op = "merge"})
Op(name, a, b, c) == [op |-> name, a |-> a, b |-> b, c |-> c]

LastOp == IF ops = <<>> THEN "" ELSE ops[Len(ops)].op
PrevOp == IF Len(ops) < 2 THEN "" ELSE ops[Len(ops) - 1].op

DoMerge == \E t \in DOMAIN Templates :
   /\ NMerges < MaxMerges /\ Len(g.nodes) + Len(Templates[t].els) <= MaxNodes
   /\ LastIsLargest(g)                      \* the documented assumption of merge_graphs
   /\ g' = Merge(g, t) /\ ops' = Append(ops, Op("merge", t, 0, 0))
   /\ out' = [kind |-> "corr", v |-> Corr(g, t)]
DoBond == \E a, b \in Keys(g) : \E o \in {1, 2} :
   /\ a < b /\ ~HasEdge(g, a, b) /\ NodeAt(g, a).fid # NodeAt(g, b).fid
   /\ ToSet(NodeAt(g, a).fid) \cap ToSet(NodeAt(g, b).fid) = {}
   /\ \A e \in g.edges : ~(NodeAt(g, e[1]).fid # NodeAt(g, e[2]).fid /\ e[1] >= a)   \* canonical order: one history per bond set
   /\ g' = Bond(g, a, b, o) /\ ops' = Append(ops, Op("bond", a, b, o)) /\ out' = [kind |-> "none", v |-> <<>>]
IterPos(G, k) == CHOOSE i \in DOMAIN G.nodes : G.nodes[i].key = k
DoSquash == \E a, b \in Keys(g) :
   /\ IterPos(g, a) < IterPos(g, b) /\ ~HasEdge(g, a, b)     \* the node met first is kept
   /\ ToSet(NodeAt(g, a).fid) \cap ToSet(NodeAt(g, b).fid) = {}
   /\ NodeAt(g, a).el = NodeAt(g, b).el
   /\ \A i \in DOMAIN g.nodes : b \notin ToSet(g.nodes[i].ez)     \* (the resolver squashes before stereo references exist)
   /\ \A e \in g.edges : ~(e[1] \in {a, b} /\ e[2] \in {a, b})
   /\ \A x \in Keys(g) : ~(HasEdge(g, a, x) /\ HasEdge(g, b, x))  \* no double edge after contraction
   /\ g' = Squash(g, a, b) /\ ops' = Append(ops, Op("squash", a, b, 0)) /\ out' = [kind |-> "none", v |-> <<>>]
DoSort ==
   /\ g.nodes # <<>> /\ ~(LastOp = "sort" /\ PrevOp = "sort")        \* Sort;Sort once (idempotence)
   /\ g' = Sort(g) /\ ops' = Append(ops, Op("sort", 0, 0, 0)) /\ out' = [kind |-> "none", v |-> <<>>]
DoAnnotate ==
   /\ g.nodes # <<>> /\ LastOp \notin {"annotate", "names"}
   /\ g' = g /\ ops' = Append(ops, Op("annotate", 0, 0, 0))
   /\ out' = [kind |-> "meta", v |-> Annotate(g)]
DoNames ==
   /\ g.nodes # <<>> /\ SingleMembership(g) /\ IterIsKeyOrder(g)
   /\ LastOp \notin {"annotate", "names"}
   /\ g' = g /\ ops' = Append(ops, Op("names", 0, 0, 0))
   /\ out' = [kind |-> "names", v |-> Names(g)]

Init == g = Empty /\ ops = <<>> /\ out = [kind |-> "none", v |-> <<>>]
Next == /\ Len(ops) < MaxOps
        /\ (DoMerge \/ DoBond \/ DoSquash \/ DoSort \/ DoAnnotate \/ DoNames)
Spec == Init /\ [][Next]_vars

(* -------------------------------- invariants ----------------------------- *)
KeysUnique == \A i, j \in DOMAIN g.nodes : g.nodes[i].key = g.nodes[j].key => i = j
EdgesOnNodes == \A e \in g.edges : e[1] \in Keys(g) /\ e[2] \in Keys(g) /\ e[1] < e[2]
ReferencesLive == RefsOK(g)
(* after Sort: keys 0..n-1, ascending by (membership, old key) *)
Canonical(G) == /\ Keys(G) = 0..(Len(G.nodes) - 1)
                /\ \A i, j \in DOMAIN G.nodes : G.nodes[i].key < G.nodes[j].key => ~LexLt(G.nodes[j].fid, G.nodes[i].fid)
SortCanonical == LastOp = "sort" => Canonical(g)
SortIdempotent == Canonical(g) /\ IterIsKeyOrder(g) => Sort(g) = g
(* pure merges never need sorting: the sampler and the resolver rely on it between growth steps *)
OnlyMerges == \A i \in DOMAIN ops : ops[i].op \in {"merge", "bond", "annotate", "names"}
MergeKeepsCanonical == OnlyMerges => Canonical(g) /\ Sort(g) = g
(* Annotate: every node belongs to exactly the fragments of its membership list; fragments of merged copies are blocks *)
AnnotateCovers == \A k \in Keys(g) : \A f \in FragIds(g) : (k \in Annotate(g)[f].nodes) <=> (f \in ToSet(NodeAt(g, k).fid))
BlocksContiguous == Canonical(g) /\ SingleMembership(g) =>
   \A f \in FragIds(g) : LET M == Members(g, f) IN \A k \in Keys(g) : (\E a, b \in M : a <= k /\ k <= b) => k \in M

Emit == PrintT(<<"G", Len(ops), ToJson([ops |-> ops, nodes |-> g.nodes, edges |-> g.edges, out |-> out])>>)

(* ------------------------------- universes ------------------------------- *)
Tpl(els, ez, edges) == [els |-> els, ez |-> ez, edges |-> edges]
TplQ == << Tpl(<<"C">>, <<<<>>>>, {}),
           Tpl(<<"C", "O">>, <<<<>>, <<>>>>, {<<0, 1, 1>>}),
           Tpl(<<"F", "C", "C">>, <<<<0, 1>>, <<>>, <<2, 1>>>>, {<<0, 1, 1>>, <<1, 2, 2>>}),
           Tpl(<<"O", "H", "C">>, <<<<>>, <<>>, <<>>>>, {<<0, 1, 1>>, <<0, 2, 1>>}) >>      \* an explicit hydrogen inside the block
TplT == TplQ \o << Tpl(<<"C", "C", "N">>, <<<<>>, <<>>, <<>>>>, {<<0, 1, 1>>, <<1, 2, 1>>, <<0, 2, 1>>}) >>
=============================================================================
