--------------------------- MODULE FragTextTrace ---------------------------
(***************************************************************************)
(* Trace validation of strip_bonding_descriptors (C13) against FragText.   *)
(* Record: [mode |-> "strip", coarse, toks,                                *)
(*          obs |-> [outcome, clean, desc <<<<atom, <<strings>>>>>>,       *)
(*                   ann <<<<atom, <<<<k, v>>>>>>>>, ez <<<<atom, c>>>>]]  *)
(***************************************************************************)
EXTENDS FragText, Json, IOUtils

Traces == JsonDeserialize(IOEnv.TRACE_FILE)
VARIABLES tid, done
vars == <<tid, done>>
T == Traces[tid]
ToSet(seq) == {seq[i] : i \in DOMAIN seq}

ObsDesc(o, atom) == IF \E p \in ToSet(o.desc) : p[1] = atom
                    THEN (CHOOSE p \in ToSet(o.desc) : p[1] = atom)[2] ELSE <<>>
ObsHasAnn(o, atom) == \E p \in ToSet(o.ann) : p[1] = atom
ObsAnn(o, atom) == {<<q[1], q[2]>> : q \in ToSet((CHOOSE p \in ToSet(o.ann) : p[1] = atom)[2])}

(* scope of the recorded finding: a descriptor behind ring marker(s) that carry a bond symbol *)
RECURSIVE BackOverRings(_, _)
BackOverRings(ts, i) == IF i >= 1 /\ ts[i].k = "R" THEN BackOverRings(ts, i - 1) ELSE i
RingSymbolBeforeDescriptor(ts) ==
  \E i \in DOMAIN ts : /\ ts[i].k = "D" /\ i > 1 /\ ts[i - 1].k = "R"
                       /\ LET j == BackOverRings(ts, i - 1) IN j >= 1 /\ ts[j].k = "B"

StripVerdict ==
  LET ts == T.toks
      dom == InGrammarF(ts, T.coarse) /\ AnnOKF(ts)
  IN IF ~dom THEN [dom |-> FALSE]
     ELSE
       LET s == Strip(ts)
           ok == T.obs.outcome = "ok"
           n == s.natoms
       IN [ dom |-> TRUE,
            ndesc |-> Cardinality({i \in DOMAIN ts : ts[i].k = "D"}),
            ringsym |-> RingSymbolBeforeDescriptor(ts),
            C13_Accepted |-> ok,
            C13_Clean |-> ok => T.obs.clean = s.clean,
            C13_Desc  |-> ok => /\ \A a \in 0..(n - 1) : ObsDesc(T.obs, a) = s.desc[a + 1]
                                /\ \A p \in ToSet(T.obs.desc) : p[1] \in 0..(n - 1) \/ p[2] = <<>>,
            C13_Ann   |-> ok => /\ \A a \in 0..(n - 1) :
                                     IF s.ann[a + 1] # <<>>
                                     THEN ObsHasAnn(T.obs, a) /\ ObsAnn(T.obs, a) = BindAttrs(s.ann[a + 1], AtomDialect)
                                     ELSE ~ObsHasAnn(T.obs, a) \/ ObsAnn(T.obs, a) = BindAttrs(<<>>, AtomDialect)
                                /\ \A p \in ToSet(T.obs.ann) : p[1] \in 0..(n - 1) ]

Verdict == StripVerdict

Init == tid \in 1..Len(Traces) /\ done = FALSE
Next == /\ done = FALSE /\ done' = TRUE /\ tid' = tid
        /\ PrintT(<<"V", tid, ToJson(Verdict)>>)
Spec == Init /\ [][Next]_vars
=============================================================================
