--------------------------- MODULE FragTextTrace ---------------------------
(***************************************************************************)
(* Trace validation of strip_bonding_descriptors (C13) against FragText.   *)
(* Record: [mode |-> "strip", coarse, toks,                                *)
(*          obs |-> [outcome, clean, desc <<<<atom, <<strings>>>>>>,       *)
(*                   ann <<<<atom, <<<<k, v>>>>>>>>, ez <<<<atom, c>>>>]]  *)
(***************************************************************************)
EXTENDS FragText, Json, IOUtils

Traces == JsonDeserialize(IOEnv.TRACE_FILE)
VARIABLES tid, done
vars == <<tid, done>>
T == Traces[tid]
ToSet(seq) == {seq[i] : i \in DOMAIN seq}

ObsDesc(o, atom) == IF \E p \in ToSet(o.desc) : p[1] = atom
                    THEN (CHOOSE p \in ToSet(o.desc) : p[1] = atom)[2] ELSE <<>>
ObsHasAnn(o, atom) == \E p \in ToSet(o.ann) : p[1] = atom
ObsAnn(o, atom) == {<<q[1], q[2]>> : q \in ToSet((CHOOSE p \in ToSet(o.ann) : p[1] = atom)[2])}

(* scope of the recorded finding: a descriptor behind ring marker(s) that carry a bond symbol *)
RECURSIVE BackOverRings(_, _)
BackOverRings(ts, i) == IF i >= 1 /\ ts[i].k = "R" THEN BackOverRings(ts, i - 1) ELSE i
RingSymbolBeforeDescriptor(ts) ==
  \E i \in DOMAIN ts : /\ ts[i].k = "D" /\ i > 1 /\ ts[i - 1].k = "R"
                       /\ LET j == BackOverRings(ts, i - 1) IN j >= 1 /\ ts[j].k = "B"

StripVerdict ==
  LET ts == T.toks
      dom == InGrammarF(ts, T.coarse) /\ AnnOKF(ts)
  IN IF ~dom THEN [dom |-> FALSE]
     ELSE
       LET s == Strip(ts)
           ok == T.obs.outcome = "ok"
           n == s.natoms
       IN [ dom |-> TRUE,
            ndesc |-> Cardinality({i \in DOMAIN ts : ts[i].k = "D"}),
            ringsym |-> RingSymbolBeforeDescriptor(ts),
            C13_Accepted |-> ok,
            C13_Clean |-> ok => T.obs.clean = s.clean,
            C13_Desc  |-> ok => /\ \A a \in 0..(n - 1) : ObsDesc(T.obs, a) = s.desc[a + 1]
                                /\ \A p \in ToSet(T.obs.desc) : p[1] \in 0..(n - 1) \/ p[2] = <<>>,
            C13_Ann   |-> ok => /\ \A a \in 0..(n - 1) :
                                     IF s.ann[a + 1] # <<>>
                                     THEN ObsHasAnn(T.obs, a) /\ ObsAnn(T.obs, a) = BindAttrs(s.ann[a + 1], AtomDialect)
                                     ELSE ~ObsHasAnn(T.obs, a) \/ ObsAnn(T.obs, a) = BindAttrs(<<>>, AtomDialect)
                                /\ \A p \in ToSet(T.obs.ann) : p[1] \in 0..(n - 1) ]

(* ---------------------------------------------------------------------- *)
(* C08: fragment text -> read_fragments -> write_cgsmiles_fragments -> text' *)
(* record: [mode |-> "rt", coarse, toks, toks2, written, tokenizable,     *)
(*          wit (atom i of toks -> atom of toks2, 1-based),               *)
(*          f1, f2 : fragment graphs read by the implementation from text / text'] *)
(* ---------------------------------------------------------------------- *)
RECURSIVE CountOf(_, _, _)
CountOf(seq, x, i) == IF i > Len(seq) THEN 0 ELSE (IF seq[i] = x THEN 1 ELSE 0) + CountOf(seq, x, i + 1)
SameBag(s1, s2) == Len(s1) = Len(s2) /\ \A x \in ToSet(s1) \cup ToSet(s2) : CountOf(s1, x, 1) = CountOf(s2, x, 1)

SpecIso(d0, d1, w, coarse) ==
  /\ Len(w) = Len(d0.atoms) /\ Len(d0.atoms) = Len(d1.atoms)
  /\ \A i \in DOMAIN w : w[i] \in DOMAIN d1.atoms
  /\ \A i, j \in DOMAIN w : i # j => w[i] # w[j]
  /\ \A i \in DOMAIN w : LET a == d0.atoms[i] b == d1.atoms[w[i]] IN
        /\ a.el = b.el /\ a.ch = b.ch /\ a.ar = b.ar
        /\ SameBag([j \in DOMAIN d0.desc[i] |-> DescString(d0.desc[i][j])], [j \in DOMAIN d1.desc[w[i]] |-> DescString(d1.desc[w[i]][j])])
  /\ {<<FPair(w[e[1] + 1] - 1, w[e[2] + 1] - 1)[1], FPair(w[e[1] + 1] - 1, w[e[2] + 1] - 1)[2], e[3]>> : e \in d0.bonds} = d1.bonds

(* the implementation's own graphs: nodes <<el, chg, arom, desc strings>>, edges <<a, b, o2>> (0-based) *)
ReadIso(f1, f2, w) ==
  /\ Len(w) = Len(f1.nodes) /\ Len(f1.nodes) = Len(f2.nodes)
  /\ \A i \in DOMAIN w : w[i] \in DOMAIN f2.nodes
  /\ \A i, j \in DOMAIN w : i # j => w[i] # w[j]
  /\ \A i \in DOMAIN w : /\ f1.nodes[i][1] = f2.nodes[w[i]][1] /\ f1.nodes[i][2] = f2.nodes[w[i]][2]
                           /\ f1.nodes[i][3] = f2.nodes[w[i]][3] /\ SameBag(f1.nodes[i][4], f2.nodes[w[i]][4])
  /\ {<<FPair(w[e[1] + 1] - 1, w[e[2] + 1] - 1)[1], FPair(w[e[1] + 1] - 1, w[e[2] + 1] - 1)[2], e[3]>> : e \in ToSet(f1.edges)}
       = {<<e[1], e[2], e[3]>> : e \in ToSet(f2.edges)}

RtVerdict ==
  LET dom == InGrammarF(T.toks, T.coarse) /\ AnnOKF(T.toks) IN
  IF ~dom THEN [dom |-> FALSE]
  ELSE LET gram2 == T.tokenizable /\ InGrammarF(T.toks2, T.coarse)
           d0 == DenoteF(T.toks, T.coarse) IN
       [ dom |-> TRUE,
         ndesc |-> Cardinality({i \in DOMAIN T.toks : T.toks[i].k = "D"}),
         C08_Written |-> T.written,
         C08_InGrammar |-> T.written => gram2,
         C08_SpecIso |-> (T.written /\ gram2) => SpecIso(d0, DenoteF(T.toks2, T.coarse), T.wit, T.coarse),
         C08_ReadIso |-> (T.written /\ T.f2.outcome = "ok") => ReadIso(T.f1, T.f2, T.wit),
         C08_ReadBack |-> T.written => T.f2.outcome = "ok" ]

(* C08 second half: the molecule resolved from the re-written complete string equals the original one *)
WholeVerdict ==
  [ dom |-> TRUE,
    C08_WholeWritten |-> T.written,
    C08_WholeResolves |-> T.written => T.f2.outcome = "ok",
    C08_Whole |-> (T.written /\ T.f2.outcome = "ok") => ReadIso(T.f1, T.f2, T.wit) ]

(* ---------------------------------------------------------------------- *)
(* C20 at fragment level: a fault inside a fragment definition.           *)
(* record: [mode |-> "fragfault", coarse, toks, obs |-> [outcome]]        *)
(* Coarse fragments are read by the graph reader: an unclosed ring index  *)
(* or a ring bond duplicating an edge is a SyntaxError.  Annotation       *)
(* faults (two '=', too many positionals, non-numeric weight) raise the   *)
(* documented error at every level.                                       *)
(* ---------------------------------------------------------------------- *)
AnnFaultF(ts) ==
  LET bad == {i \in DOMAIN ts : ts[i].k = "A" /\ BindError(ts[i].a, AtomDialect) # ""} IN
  IF bad = {} THEN "" ELSE BindError(ts[CHOOSE i \in bad : \A j \in bad : i <= j].a, AtomDialect)
FragFaultVerdict ==
  LET okprefix == PrefixOK(T.toks, T.coarse) /\ \A i \in DOMAIN T.toks : T.toks[i].k = "A" => AnnInDomain(T.toks[i].a, AtomDialect)
  IN IF ~okprefix THEN [dom |-> FALSE]
     ELSE LET fs == DenoteF(T.toks, T.coarse)
              ring == IF fs.err = "dup" THEN "dup" ELSE IF fs.open # {} THEN "dangling" ELSE ""
              ann == AnnFaultF(T.toks)
              exp == IF ann # "" THEN "exc:" \o ann
                     ELSE IF ring # "" /\ T.coarse THEN "exc:SyntaxError" ELSE "ok"
          IN IF ring # "" /\ ~T.coarse THEN [dom |-> FALSE]     \* ring faults in SMILES are pysmiles' business
             ELSE [ dom |-> TRUE, expected |-> exp, fault |-> IF ann # "" THEN ann ELSE ring,
                    C20_Raises |-> (exp # "ok") => T.obs.outcome = exp,
                    C20_NoGraph |-> (exp # "ok") => T.obs.outcome # "ok",
                    X_Accepted |-> (exp = "ok") => T.obs.outcome = "ok" ]

Verdict == CASE T.mode = "rt" -> RtVerdict
             [] T.mode = "fragfault" -> FragFaultVerdict
             [] T.mode = "whole" -> WholeVerdict
             [] OTHER -> StripVerdict

Init == tid \in 1..Len(Traces) /\ done = FALSE
Next == /\ done = FALSE /\ done' = TRUE /\ tid' = tid
        /\ PrintT(<<"V", tid, ToJson(Verdict)>>)
Spec == Init /\ [][Next]_vars
=============================================================================
