------------------------------- MODULE Annot -------------------------------
(***************************************************************************)
(* Annotation binding of CGsmiles (dialects.py: _parse_dialect_string).    *)
(*                                                                         *)
(* An annotation is the text after a node / atom name, split at ';' into   *)
(* entries.  An entry is logged as a record                                *)
(*     [k |-> key ("" for a positional entry), v |-> value, eq |-> #'=']   *)
(* A dialect lists the reserved parameters in positional order, which of   *)
(* them are numeric, their defaults and their verbose names.               *)
(*                                                                         *)
(* Bind(entries, D) is the documented meaning: positional entries fill the *)
(* reserved parameters in order, keywords bind by name, unknown keys are   *)
(* kept verbatim, reserved numeric keys are numbers, omitted reserved keys *)
(* take their defaults, and reserved symbols are renamed.                  *)
(***************************************************************************)
EXTENDS Naturals, Sequences, FiniteSets, TLC

None == "<none>"

(* Numeric spellings and their canonical value (repr of the float).  A     *)
(* spelling outside this table and outside NonNumeric is out of domain.    *)
Canon ==
  "0" :> "0.0" @@ "1" :> "1.0" @@ "2" :> "2.0" @@ "3" :> "3.0" @@ "4" :> "4.0" @@ "5" :> "5.0" @@
  "+1" :> "1.0" @@ "-1" :> "-1.0" @@ "+2" :> "2.0" @@ "-2" :> "-2.0" @@ "+0" :> "0.0" @@ "-0" :> "-0.0" @@
  "0.0" :> "0.0" @@ "1.0" :> "1.0" @@ "2.0" :> "2.0" @@ "-1.0" :> "-1.0" @@ "+1.0" :> "1.0" @@
  "0.5" :> "0.5" @@ ".5" :> "0.5" @@ "+0.5" :> "0.5" @@ "-0.5" :> "-0.5" @@ "5e-1" :> "0.5" @@
  "0.25" :> "0.25" @@ "-0.25" :> "-0.25" @@ "+0.25" :> "0.25" @@ "2.5e-1" :> "0.25" @@
  "0.1" :> "0.1" @@ "1e-1" :> "0.1" @@ "0.2" :> "0.2" @@ "0.3" :> "0.3" @@ "0.75" :> "0.75" @@
  "1e0" :> "1.0" @@ "1E0" :> "1.0" @@ "1." :> "1.0" @@ "01" :> "1.0" @@ "1e1" :> "10.0" @@ "10" :> "10.0" @@
  "36" :> "36.0" @@ "72" :> "72.0" @@ "1.5" :> "1.5" @@ "-1.5" :> "-1.5" @@ "0.05" :> "0.05" @@
  "12" :> "12.0" @@ "0.33" :> "0.33" @@ "100" :> "100.0"

NonNumeric == {"a", "abc", "x1", "1,2", "1x", "--1", "R", "S", "one", "1e", "e1", "0x1"}

IsNumeric(s) == s \in DOMAIN Canon

(* ---------------------------------------------------------------------- *)
(* Dialects                                                                *)
(* ---------------------------------------------------------------------- *)
GraphDialect ==
  [ params  |-> <<"fragname", "q", "w">>,
    numeric |-> {"q", "w"},
    default |-> "fragname" :> None @@ "q" :> "0.0" @@ "w" :> "1.0",
    rename  |-> "fragname" :> "fragname" @@ "q" :> "charge" @@ "w" :> "weight" ]

(* atoms of atomistic fragments: weight and chirality *)
AtomDialect ==
  [ params  |-> <<"w", "x">>,
    numeric |-> {"w"},
    default |-> "w" :> "1.0" @@ "x" :> None,
    rename  |-> "w" :> "weight" @@ "x" :> "chiral" ]

(* nodes of coarse fragments: by the documentation's table the coarse     *)
(* dialect (charge, weight); the name is bound separately.                *)
CoarseFragDialect ==
  [ params  |-> <<"q", "w">>,
    numeric |-> {"q", "w"},
    default |-> "q" :> "0.0" @@ "w" :> "1.0",
    rename  |-> "q" :> "charge" @@ "w" :> "weight" ]

ParamSet(D) == {D.params[i] : i \in DOMAIN D.params}
Reserved(D) == ParamSet(D) \cup {D.rename[p] : p \in ParamSet(D)} \cup {"kwargs", "fragname"}

(* ---------------------------------------------------------------------- *)
(* Domain                                                                  *)
(* ---------------------------------------------------------------------- *)
IsEntry(e) == /\ DOMAIN e = {"k", "v", "eq"}
              /\ e.eq \in 0..3
              /\ (e.k = "" => e.eq = 0)
              /\ (e.k # "" => e.eq >= 1)

AnnInDomain(entries, D) ==
  /\ \A i \in DOMAIN entries : IsEntry(entries[i])
  \* no duplicate keyword; free keys do not shadow verbose names
  /\ \A i, j \in DOMAIN entries : (i # j /\ entries[i].k # "" /\ entries[i].eq = 1 /\ entries[j].eq = 1)
                                     => entries[i].k # entries[j].k
  /\ \A i \in DOMAIN entries : (entries[i].k # "" /\ entries[i].k \notin ParamSet(D))
                                     => entries[i].k \notin Reserved(D)

(* ---------------------------------------------------------------------- *)
(* Binding                                                                 *)
(* ---------------------------------------------------------------------- *)
Positionals(entries) == SelectSeq(entries, LAMBDA e : e.k = "")
Keywords(entries)    == SelectSeq(entries, LAMBDA e : e.k # "")

IndexOf(seq, x) == CHOOSE i \in DOMAIN seq : seq[i] = x

(* the raw value bound to reserved parameter p (None if nothing binds it) *)
RawValue(entries, D, p) ==
  LET pos == Positionals(entries)
      kw  == Keywords(entries)
      ip  == IndexOf(D.params, p)
  IN IF ip <= Len(pos) THEN pos[ip].v
     ELSE IF \E i \in DOMAIN kw : kw[i].k = p
          THEN kw[CHOOSE i \in DOMAIN kw : kw[i].k = p].v
          ELSE D.default[p]

TooManyEq(entries)   == \E i \in DOMAIN entries : entries[i].eq > 1
TooManyPos(entries, D) == Len(Positionals(entries)) > Len(D.params)
Collides(entries, D) ==
  LET pos == Positionals(entries) kw == Keywords(entries)
  IN \E i \in DOMAIN kw : \E j \in DOMAIN D.params : j <= Len(pos) /\ D.params[j] = kw[i].k
BadNumber(entries, D) ==
  \E p \in D.numeric : LET v == RawValue(entries, D, p) IN v # None /\ ~IsNumeric(v)

BindError(entries, D) ==
  IF TooManyEq(entries) THEN "SyntaxError"
  ELSE IF TooManyPos(entries, D) \/ Collides(entries, D) THEN "SyntaxError"
  ELSE IF BadNumber(entries, D) THEN "TypeError"
  ELSE ""

(* the attribute set {<<key, value>>} an error-free annotation denotes *)
BindAttrs(entries, D) ==
  LET kw == Keywords(entries)
      reserved == { <<D.rename[p],
                      IF p \in D.numeric THEN Canon[RawValue(entries, D, p)]
                                         ELSE RawValue(entries, D, p)>> :
                    p \in {q \in ParamSet(D) : RawValue(entries, D, q) # None} }
      free == { <<kw[i].k, kw[i].v>> : i \in {j \in DOMAIN kw : kw[j].k \notin ParamSet(D)} }
  IN reserved \cup free

Bind(entries, D) == [err |-> BindError(entries, D),
                     attrs |-> IF BindError(entries, D) = "" THEN BindAttrs(entries, D) ELSE {}]

(* Two annotations mean the same if they bind to the same attribute set. *)
SameMeaning(e1, e2, D) == Bind(e1, D) = Bind(e2, D)

=============================================================================
