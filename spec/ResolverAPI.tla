---------------------------- MODULE ResolverAPI ----------------------------
(***************************************************************************)
(* The MoleculeResolver object as a state machine over call histories      *)
(* (C06: drivers agree; C12: results depend on the input alone).           *)
(*                                                                         *)
(* An input i has Levels[i] fragment levels.  Objects are created by one   *)
(* of the three constructors and driven by resolve (one level),            *)
(* resolve_iter (all remaining levels, each yielded) or resolve_all (all   *)
(* remaining levels, last one returned).  Objects created through          *)
(* from_fragment_dicts SHARE the fragment-library objects of their input.  *)
(* The specification's claim: every yielded result is a function           *)
(* Result(input, level) of the input and the level alone, whatever the     *)
(* history, and library objects never change.                              *)
(***************************************************************************)
EXTENDS Naturals, Sequences, FiniteSets, TLC, Json

CONSTANTS Inputs, Levels, MaxObjs, MaxEvents, Ctors,
          OtherKinds      \* unrelated uses of the library in the same process

VARIABLES objs, hist
vars == <<objs, hist>>

Obj(i, c) == [inp |-> i, ctor |-> c, level |-> 0]

Init == objs = <<>> /\ hist = <<>>

New(i, c) ==
  /\ Len(objs) < MaxObjs
  /\ objs' = Append(objs, Obj(i, c))
  /\ hist' = Append(hist, [op |-> "new", obj |-> Len(objs) + 1, inp |-> i, ctor |-> c, from |-> 0, to |-> 0])

(* staged construction: the first level is resolved by a throw-away resolver (coarse last level) and the object is  *)
(* built with from_graph on that fine graph and the remaining fragment blocks; it starts at level 1               *)
NewStaged(i) ==
  /\ Len(objs) < MaxObjs /\ Levels[i] >= 2
  /\ objs' = Append(objs, [inp |-> i, ctor |-> "staged", level |-> 1])
  /\ hist' = Append(hist, [op |-> "new", obj |-> Len(objs) + 1, inp |-> i, ctor |-> "staged", from |-> 0, to |-> 0])

Remaining(o) == Levels[objs[o].inp] - objs[o].level

Resolve(o) ==
  /\ Remaining(o) > 0
  /\ objs' = [objs EXCEPT ![o].level = @ + 1]
  /\ hist' = Append(hist, [op |-> "resolve", obj |-> o, inp |-> objs[o].inp, ctor |-> objs[o].ctor,
                           from |-> objs[o].level + 1, to |-> objs[o].level + 1])
(* resolve_iter / resolve_all always run Levels steps: on a fresh object that is every level; on an  *)
(* object that was already stepped they yield the remaining levels and then fail (IndexError) - the  *)
(* property C06 speaks about fresh objects only; the mixed case is modelled as the code behaves.     *)
Iterate(o) ==
  /\ Remaining(o) > 0
  /\ objs' = [objs EXCEPT ![o].level = Levels[objs[o].inp]]
  /\ hist' = Append(hist, [op |-> "resolve_iter", obj |-> o, inp |-> objs[o].inp, ctor |-> objs[o].ctor,
                           from |-> objs[o].level + 1, to |-> Levels[objs[o].inp]])
All(o) ==
  /\ Remaining(o) > 0
  /\ objs' = [objs EXCEPT ![o].level = Levels[objs[o].inp]]
  /\ hist' = Append(hist, [op |-> "resolve_all", obj |-> o, inp |-> objs[o].inp, ctor |-> objs[o].ctor,
                           from |-> Levels[objs[o].inp], to |-> Levels[objs[o].inp]])
(* calling resolve past the last level is an error and leaves the object unchanged *)
Past(o) ==
  /\ Remaining(o) = 0
  /\ UNCHANGED objs
  /\ hist' = Append(hist, [op |-> "resolve_past", obj |-> o, inp |-> objs[o].inp, ctor |-> objs[o].ctor,
                           from |-> 0, to |-> 0])

BadKinds == {"graph_without_fragname", "dicts_with_levels"}
(* constructor misuse is rejected and creates no object:                                              *)
(*   from_graph with a node that has no fragname; from_fragment_dicts with a string of several levels *)
NewBad(i, kind) ==
  /\ Len(hist) = 1 /\ i = hist[1].inp     \* once, right after the first object (keeps the universe small)
  /\ UNCHANGED objs
  /\ hist' = Append(hist, [op |-> "new_bad", obj |-> 0, inp |-> i, ctor |-> kind, from |-> 0, to |-> 0])

(* Other use of the library in the same process between two resolver events: computing the mass of a plain      *)
(* molecule graph, a sampler run, writing a molecule, reading unrelated strings.  It addresses no resolver object *)
(* and must not influence any later result (C12: results depend on the input alone).  At most one per history,  *)
(* right after the first constructor, and no further object afterwards - to keep the universe small.            *)
NOthers == Cardinality({k \in DOMAIN hist : hist[k].op = "other"})
Other(kind) ==
  /\ NOthers = 0 /\ Len(hist) = 1 /\ Len(hist) < MaxEvents - 1     \* right after the first constructor; such histories stay single-object
  /\ UNCHANGED objs
  /\ hist' = Append(hist, [op |-> "other", obj |-> 0, inp |-> hist[1].inp, ctor |-> kind, from |-> 0, to |-> 0])

Next == /\ Len(hist) < MaxEvents
        /\ \/ NOthers = 0 /\ \E i \in Inputs, c \in Ctors : New(i, c)
           \/ NOthers = 0 /\ \E i \in Inputs : NewStaged(i)
           \/ \E i \in Inputs, kind \in BadKinds : NewBad(i, kind)
           \/ \E kind \in OtherKinds : Other(kind)
           \/ \E o \in DOMAIN objs : Resolve(o) \/ Iterate(o) \/ All(o) \/ Past(o)
Spec == Init /\ [][Next]_vars

(* design invariants *)
LevelsBounded == \A o \in DOMAIN objs : objs[o].level <= Levels[objs[o].inp]
(* an event changes only the object it addresses *)
Isolation == [][\A o \in DOMAIN objs : (o \in DOMAIN objs' /\ objs'[o] # objs[o]) => hist'[Len(hist')].obj = o]_vars
(* the levels an object has yielded so far are exactly 1..level, each once *)
Yielded(o) == UNION {(hist[k].from)..(hist[k].to) : k \in {j \in DOMAIN hist : hist[j].obj = o /\ hist[j].op \in {"resolve", "resolve_iter"}}}
              \cup {hist[k].to : k \in {j \in DOMAIN hist : hist[j].obj = o /\ hist[j].op = "resolve_all"}}
YieldedPrefix == \A o \in DOMAIN objs : Yielded(o) \subseteq 1..objs[o].level

Emit == (Len(hist) = MaxEvents \/ Len(hist) > 0) => PrintT(<<"G", Len(hist), ToJson([hist |-> hist])>>)

Lv == 1 :> 2 @@ 2 :> 1 @@ 3 :> 3 @@ 4 :> 1 @@ 5 :> 1
CtorsAll == {"from_string", "from_graph", "from_fragment_dicts"}
OthersQ == {"mass", "sample"}
OthersAll == {"mass", "sample", "write", "read"}
=============================================================================
