-------------------------------- MODULE Chem --------------------------------
(***************************************************************************)
(* Elements, usual valences and masses used by the resolver and sampler    *)
(* specifications (C01, C09, C17).                                         *)
(* Bond orders are doubled throughout (2 single, 3 aromatic, 4 double,     *)
(* 6 triple, 8 quadruple, 0 none) so that everything stays in the integers.*)
(***************************************************************************)
EXTENDS Naturals, Integers, FiniteSets, TLC

(* number of valence-shell electrons of the neutral atom (main-group elements we model) *)
Shell == "B" :> 3 @@ "C" :> 4 @@ "N" :> 5 @@ "O" :> 6 @@ "F" :> 7 @@
         "Si" :> 4 @@ "P" :> 5 @@ "S" :> 6 @@ "Cl" :> 7 @@ "Br" :> 7 @@ "I" :> 7 @@ "H" :> 1
(* second-row elements do not expand their octet *)
SecondRow == {"B", "C", "N", "O", "F"}
Known(el) == el \in DOMAIN Shell

(* usual valences of an element with a formal charge: those of the isoelectronic neutral atom *)
UsualOfShell(e, expand) ==
  CASE e = 1 -> {1}
    [] e = 2 -> {2}
    [] e = 3 -> {3}
    [] e = 4 -> {4}
    [] e = 5 -> IF expand THEN {3, 5} ELSE {3}
    [] e = 6 -> IF expand THEN {2, 4, 6} ELSE {2}
    [] e = 7 -> {1}
    [] OTHER -> {}
Usual(el, chg) ==
  IF ~Known(el) THEN {}
  ELSE IF el = "H" THEN (IF chg = 0 THEN {1} ELSE {})
  ELSE LET e == Shell[el] - chg IN
       \* nitrogen is conventionally allowed 5 (nitro written with double bonds)
       UsualOfShell(e, el \notin SecondRow \/ (el = "N" /\ chg = 0))

MaxOf(S) == CHOOSE x \in S : \A y \in S : y <= x
MinOf(S) == CHOOSE x \in S : \A y \in S : x <= y

(* b2 = sum of doubled bond orders to non-hydrogen neighbours; the valence used is b2 \div 2  *)
(* (an aromatic atom with three aromatic bonds, 4.5, uses four)                               *)
Used(b2) == b2 \div 2
Fits(el, chg, b2) == Usual(el, chg) # {} /\ Used(b2) <= MaxOf(Usual(el, chg))
Need(el, chg, b2) == MinOf({v \in Usual(el, chg) : v >= Used(b2)}) - Used(b2)

(* atomic masses in milli-dalton *)
MassMilli == "H" :> 1008 @@ "B" :> 10810 @@ "C" :> 12011 @@ "N" :> 14007 @@ "O" :> 15999 @@ "F" :> 18998 @@
             "Si" :> 28085 @@ "P" :> 30974 @@ "S" :> 32060 @@ "Cl" :> 35450 @@ "Br" :> 79904 @@ "I" :> 126904 @@
             "Na" :> 22990
=============================================================================
