------------------------------ MODULE FragText ------------------------------
(***************************************************************************)
(* Fragment texts (read_fragments.py: strip_bonding_descriptors and the    *)
(* fragment graphs built from the cleaned text).                           *)
(*                                                                         *)
(* A fragment text is a sequence of tokens                                 *)
(*   [k, v, n, a, el, ar, ch, hc]                                          *)
(*   "A" atom / coarse node: v = text without annotation ("C", "Cl", "c",  *)
(*       "[O-]", "[CH2]", "[#PEO]"), a = annotation entries (bracket atoms *)
(*       only), el = element or node name, ar = aromatic, ch = charge,     *)
(*       hc = explicit hydrogen count (-1 = not given)                     *)
(*   "D" bonding descriptor: v = kind ($ > < !), el = label                *)
(*   "B" bond symbol v;  "R" ring marker n (v = "d" | "%");  "(" ")"       *)
(*   "Z" slash mark v ("/" or "\\")                                        *)
(*                                                                         *)
(* Strip(ts)  : what the tokenizer must report (C13)                       *)
(* Denote(ts) : the fragment graph the text denotes (C08, C01, C02)        *)
(***************************************************************************)
EXTENDS Naturals, Integers, Sequences, FiniteSets, TLC, Annot

(* ':' is the aromatic order 1.5; orders are integers here, so it is coded as 15 *)
Aromatic15 == 15
FSymOrder == "." :> 0 @@ "-" :> 1 @@ "=" :> 2 @@ "#" :> 3 @@ "$" :> 4 @@ ":" :> Aromatic15
FSymbols  == DOMAIN FSymOrder
Dbl(o)    == IF o = Aromatic15 THEN 3 ELSE 2 * o          \* doubled orders: 3 = aromatic
OrdText(o) == IF o = Aromatic15 THEN "1.5" ELSE ToString(o)
Kinds     == {"$", ">", "<", "!"}

FPair(a, b) == IF a < b THEN <<a, b>> ELSE <<b, a>>

(* ---------------------------------------------------------------------- *)
(* token classification                                                    *)
(* ---------------------------------------------------------------------- *)
NoAtomBefore(ts, i) == \A j \in 1..(i - 1) : ts[j].k # "A"
IsLeadingD(ts, i)   == ts[i].k = "D" /\ NoAtomBefore(ts, i)

(* the role of the bond symbol at position i *)
SymRole(ts, i) ==
  IF i > 1 /\ IsLeadingD(ts, i - 1) THEN "lead"         \* order of the leading descriptor in front of it
  ELSE IF i < Len(ts) /\ ts[i + 1].k = "D" THEN "cap"   \* order of the descriptor behind it
  ELSE "bond"                                           \* part of the SMILES / CGsmiles text

(* order of the descriptor at position i *)
DescOrder(ts, i) ==
  IF IsLeadingD(ts, i)
  THEN IF i < Len(ts) /\ ts[i + 1].k = "B" THEN FSymOrder[ts[i + 1].v] ELSE 1
  ELSE IF i > 1 /\ ts[i - 1].k = "B" /\ SymRole(ts, i - 1) = "cap" THEN FSymOrder[ts[i - 1].v] ELSE 1

RingText(t) == IF t.v = "d" THEN ToString(t.n)
               ELSE "%" \o (IF t.n < 10 THEN "0" ELSE "") \o ToString(t.n)

(* text a token contributes to the cleaned string *)
CleanText(ts, i) ==
  LET t == ts[i] IN
  CASE t.k = "A" -> t.v
    [] t.k = "B" -> IF SymRole(ts, i) = "bond" THEN t.v ELSE ""
    [] t.k = "R" -> RingText(t)
    [] t.k \in {"(", ")"} -> t.k
    [] OTHER -> ""            \* descriptors and slash marks are stripped

RECURSIVE CleanFrom(_, _)
CleanFrom(ts, i) == IF i > Len(ts) THEN "" ELSE CleanText(ts, i) \o CleanFrom(ts, i + 1)
Clean(ts) == CleanFrom(ts, 1)

(* ---------------------------------------------------------------------- *)
(* the machine                                                             *)
(* ---------------------------------------------------------------------- *)
InitFS ==
  [ atoms |-> <<>>,   \* token of each atom; atom id = position - 1
    bonds |-> {},     \* <<a, b, order2>>  (orders doubled: 2 single, 3 aromatic, 4 double ...)
    desc  |-> <<>>,   \* per atom: sequence of <<kind, label, order>>
    lead  |-> <<>>,   \* descriptors written before the first atom (they belong to atom 0)
    prev  |-> -1, cur |-> -1, pend |-> -1,
    stack |-> <<>>,
    open  |-> {},     \* <<marker, atom, order2 or -1>>
    marks |-> <<>>,   \* slash marks: [c, left, right] (right = id of the next atom)
    last  |-> "S", lastpct |-> FALSE, rafter |-> FALSE,
    err   |-> "" ]

Default2(x, y) == IF x.ar /\ y.ar THEN 3 ELSE 2

StepF(fs, ts, i, coarse) ==
  LET t == ts[i] IN
  CASE t.k = "A" ->
         LET id == Len(fs.atoms)
             o2 == IF fs.pend # -1 THEN Dbl(fs.pend)
                   ELSE IF coarse THEN 2 ELSE Default2(fs.atoms[fs.prev + 1], t)
             bonded == fs.prev # -1      \* '.' is kept as a bond of order 0 (as pysmiles and the CG reader do)
         IN [fs EXCEPT !.atoms = Append(@, t),
                       !.desc = Append(@, IF id = 0 THEN fs.lead ELSE <<>>),
                       !.bonds = IF bonded THEN @ \cup {<<fs.prev, id, o2>>} ELSE @,
                       !.prev = id, !.cur = id, !.pend = -1, !.last = "A", !.lastpct = FALSE, !.rafter = TRUE]
    [] t.k = "D" ->
         LET d == <<t.v, t.el, DescOrder(ts, i)>> IN
         IF Len(fs.atoms) = 0
         THEN [fs EXCEPT !.lead = Append(@, d), !.last = "D"]
         ELSE [fs EXCEPT !.desc[fs.prev + 1] = Append(@, d), !.last = "D", !.lastpct = FALSE]
    [] t.k = "B" ->
         IF SymRole(ts, i) = "bond"
         THEN [fs EXCEPT !.pend = FSymOrder[t.v], !.last = "B", !.lastpct = FALSE]
         ELSE [fs EXCEPT !.last = IF SymRole(ts, i) = "lead" THEN "bl" ELSE "bc", !.lastpct = FALSE]  \* a descriptor's order
    [] t.k = "R" ->
         IF \E o \in fs.open : o[1] = t.n
         THEN LET o == CHOOSE o \in fs.open : o[1] = t.n
                  given == IF fs.pend # -1 THEN Dbl(fs.pend) ELSE o[3]
                  o2 == IF given # -1 THEN given
                        ELSE IF coarse THEN 2 ELSE Default2(fs.atoms[o[2] + 1], fs.atoms[fs.cur + 1])
                  dup == \E e \in fs.bonds : e[1] = FPair(o[2], fs.cur)[1] /\ e[2] = FPair(o[2], fs.cur)[2]
              IN [fs EXCEPT !.open = @ \ {o},
                            !.bonds = IF dup THEN @ ELSE @ \cup {<<FPair(o[2], fs.cur)[1], FPair(o[2], fs.cur)[2], o2>>},
                            !.err = IF dup THEN "dup" ELSE @,
                            !.pend = -1, !.last = "R", !.lastpct = (t.v = "%")]
         ELSE [fs EXCEPT !.open = @ \cup {<<t.n, fs.cur, IF fs.pend # -1 THEN Dbl(fs.pend) ELSE -1>>},
                         !.pend = -1, !.last = "R", !.lastpct = (t.v = "%")]
    [] t.k = "(" -> [fs EXCEPT !.stack = Append(@, fs.prev), !.last = "(", !.lastpct = FALSE, !.rafter = FALSE]
    [] t.k = ")" -> [fs EXCEPT !.prev = fs.stack[Len(fs.stack)], !.stack = SubSeq(@, 1, Len(@) - 1),
                               !.pend = -1, !.last = ")", !.lastpct = FALSE, !.rafter = FALSE]
    [] t.k = "Z" -> [fs EXCEPT !.marks = Append(@, [c |-> t.v, left |-> fs.prev, right |-> Len(fs.atoms)]),
                               !.last = "Z", !.lastpct = FALSE]

(* the grammar of fragment texts: SMILES / CGsmiles skeleton + descriptors.  Conditions on *)
(* the following token are vacuous at the end of a prefix, so that the same predicate     *)
(* prunes the generator's prefixes; CanEnd closes a string.                               *)
NextIn(ts, i, S) == i < Len(ts) => ts[i + 1].k \in S

WellFormedF(fs, ts, i, coarse) ==
  LET t == ts[i] IN
  CASE t.k = "A" -> fs.last \in {"S", "A", "B", "R", "(", ")", "D", "bl", "Z"}
    [] t.k = "D" -> /\ t.v \in Kinds
                    /\ fs.last \in {"S", "A", "R", "D", ")", "bc", "bl", "Z"}
    [] t.k = "B" -> /\ t.v \in FSymbols
                    /\ CASE SymRole(ts, i) = "lead" -> fs.last = "D" /\ NextIn(ts, i, {"A", "D"})
                          [] SymRole(ts, i) = "cap"  -> fs.last \in {"A", "R", ")", "D"} /\ Len(fs.atoms) > 0
                          [] OTHER -> /\ Len(fs.atoms) > 0
                                      /\ (coarse => t.v # ":")      \* the graph reader has no ':' bond
                                      /\ IF coarse THEN fs.last \in {"A", "R", ")", "D"} /\ NextIn(ts, i, {"A", "R", "(", "D"})
                                                    ELSE fs.last \in {"A", "R", ")", "D", "("} /\ NextIn(ts, i, {"A", "R", "D"})
    [] t.k = "R" -> /\ t.n \in 0..99 /\ t.v \in {"d", "%"} /\ (t.v = "d" => t.n < 10)
                    /\ fs.rafter /\ fs.last \in {"A", "R", "B", "D"}
                    /\ ~(fs.lastpct /\ t.v = "d" /\ fs.last = "R")
                    /\ ((\E o \in fs.open : o[1] = t.n) => (CHOOSE o \in fs.open : o[1] = t.n)[2] # fs.cur)
                    \* CGsmiles: the order of a ring bond is written at the opening marker only
                    /\ ((coarse /\ fs.last = "B") => ~\E o \in fs.open : o[1] = t.n)
    [] t.k = "(" -> /\ fs.last \in {"A", "R", ")", "D"} \cup (IF coarse THEN {"B"} ELSE {})
                    /\ fs.prev # -1
                    /\ NextIn(ts, i, IF coarse THEN {"A"} ELSE {"A", "Z", "B"})
    [] t.k = ")" -> fs.last \in {"A", "R", ")", "D"} /\ Len(fs.stack) > 0
    [] t.k = "Z" -> /\ ~coarse /\ t.v \in {"/", "\\"}
                    /\ fs.last \in {"A", "R", "(", ")", "D"} /\ NextIn(ts, i, {"A", "D"})
    [] OTHER -> FALSE

RECURSIVE RunF(_, _, _, _)
RunF(fs, ts, i, coarse) == IF i > Len(ts) THEN fs ELSE RunF(StepF(fs, ts, i, coarse), ts, i + 1, coarse)
DenoteF(ts, coarse) == RunF(InitFS, ts, 1, coarse)

RECURSIVE WFP(_, _, _, _)
(* every token of the prefix is well formed *)
WFP(fs, ts, i, coarse) ==
  IF i > Len(ts) THEN TRUE
  ELSE WellFormedF(fs, ts, i, coarse) /\ WFP(StepF(fs, ts, i, coarse), ts, i + 1, coarse)
PrefixOK(ts, coarse) == WFP(InitFS, ts, 1, coarse)
CanEnd(ts, coarse) ==
  LET fs == DenoteF(ts, coarse) IN
  /\ Len(ts) > 0 /\ ts[Len(ts)].k \in {"A", "R", ")", "D"}
  /\ Len(fs.stack) = 0 /\ Len(fs.atoms) > 0 /\ fs.open = {} /\ fs.err = ""
InGrammarF(ts, coarse) == PrefixOK(ts, coarse) /\ CanEnd(ts, coarse)

(* ---------------------------------------------------------------------- *)
(* C15: cis/trans relations of a fragment text (OpenSMILES semantics).     *)
(* A mark written between atoms x and y, x written first, has sign +1 for  *)
(* "/" and -1 for "\\"; read the other way round the sign flips.  A ligand  *)
(* l of double-bond atom a lies "below" (-1) if SignOf(l, a) = +1.         *)
(* Two ligands on different ends are cis iff they lie on the same side.    *)
(* ---------------------------------------------------------------------- *)
MarkSign(m) == IF m.c = "/" THEN 1 ELSE -1
SignOf(fs, x, y) ==
  IF \E i \in DOMAIN fs.marks : fs.marks[i].left = x /\ fs.marks[i].right = y
  THEN MarkSign(fs.marks[CHOOSE i \in DOMAIN fs.marks : fs.marks[i].left = x /\ fs.marks[i].right = y])
  ELSE IF \E i \in DOMAIN fs.marks : fs.marks[i].left = y /\ fs.marks[i].right = x
  THEN -MarkSign(fs.marks[CHOOSE i \in DOMAIN fs.marks : fs.marks[i].left = y /\ fs.marks[i].right = x])
  ELSE 0
Side(fs, l, a) == -SignOf(fs, l, a)
FBonded(fs, x, y) == \E e \in fs.bonds : {e[1], e[2]} = {x, y}
Ligands(fs, a, other) == {x \in 0..(Len(fs.atoms) - 1) : x # other /\ FBonded(fs, x, a) /\ SignOf(fs, x, a) # 0}
RelOf(fs, l1, a1, a2, l2) == IF Side(fs, l1, a1) = Side(fs, l2, a2) THEN "cis" ELSE "trans"
(* <<ligand, anchor, anchor, ligand, relation>> in both reading directions (atom ids 0-based) *)
FragRel(ts) ==
  LET fs == DenoteF(ts, FALSE)
      dbl == {e \in fs.bonds : e[3] = 4}
  IN UNION { UNION { { <<l1, e[1], e[2], l2, RelOf(fs, l1, e[1], e[2], l2)>>, <<l2, e[2], e[1], l1, RelOf(fs, l1, e[1], e[2], l2)>> } :
                      l1 \in Ligands(fs, e[1], e[2]), l2 \in Ligands(fs, e[2], e[1]) } : e \in dbl }
(* chirality labels written as annotation x=... : atom id -> label *)
ChiralOf(ts) ==
  LET fs == DenoteF(ts, FALSE) IN
  [a \in {i \in 0..(Len(fs.atoms) - 1) : \E p \in BindAttrs(fs.atoms[i + 1].a, AtomDialect) : p[1] = "chiral"} |->
      (CHOOSE p \in BindAttrs(fs.atoms[a + 1].a, AtomDialect) : p[1] = "chiral")[2]]

(* ---------------------------------------------------------------------- *)
(* C13: what strip_bonding_descriptors must report                         *)
(* ---------------------------------------------------------------------- *)
DescString(d) == d[1] \o d[2] \o OrdText(d[3])

IsBracket(t) == t.hc # -2      \* bare atoms are logged with hc = -2
Dialect(t, coarse) == AtomDialect

Strip(ts) ==
  LET fs == DenoteF(ts, FALSE) IN
  [ clean |-> Clean(ts),
    desc  |-> [i \in DOMAIN fs.desc |-> [j \in DOMAIN fs.desc[i] |-> DescString(fs.desc[i][j])]],
    ann   |-> [i \in DOMAIN fs.atoms |-> fs.atoms[i].a],
    natoms |-> Len(fs.atoms) ]

(* annotation domain for C13: entries bind without error; coarse nodes only use keys that mean *)
(* the same in both dialects (the dialect of coarse fragments is C14's question)              *)
AnnOKF(ts) == \A i \in DOMAIN ts : ts[i].k = "A" =>
   /\ (ts[i].a # <<>> => IsBracket(ts[i]))
   /\ AnnInDomain(ts[i].a, AtomDialect)
   /\ BindError(ts[i].a, AtomDialect) = ""

=============================================================================
