---------------------------- MODULE SamplerTrace ----------------------------
(***************************************************************************)
(* Trace validation of MoleculeSampler.sample() against Sampler.tla.       *)
(* One TLC state per growth event: the logged event (site atom, site       *)
(* descriptor, partner descriptor, fragment, partner atom - derived from   *)
(* the returned molecule in membership order) must be ENABLED in the       *)
(* specification state it is applied to, and the RNG log of that step (the *)
(* population offered to every draw, with the positivity of its weights)   *)
(* must equal the specification's enabled sets.  At the end the open       *)
(* descriptors of the specification state must equal the leftover          *)
(* descriptors on the returned atoms.                                      *)
(*                                                                         *)
(* Record: [K |-> [frags <<<<name, tokens>>>>, coarse, masses, react, cond, *)
(*                 terminal, target], start, events, final_open, draws,    *)
(*          nodes (for the structure clauses)]                             *)
(***************************************************************************)
EXTENDS SamplerCfg, Json, IOUtils

Traces == JsonDeserialize(IOEnv.TRACE_FILE)
VARIABLES tid, l, S, bad, K
vars == <<tid, l, S, bad, K>>
T == Traces[tid]

Cfg == CfgOf(T.K, T.K.masses, T.K.target)

Ev == T.events[l]
Site == <<Ev.site[1], Ev.site[2]>>
NEv == Len(T.events)

(* RNG log of step l: draws[l] = [site_pop <<<<d, positive>>>>, partner_pop <<<<p, positive>>>>] (empty when not logged) *)
HasDraws == Len(T.draws) = NEv
SitePopOK ==
  HasDraws => LET pop == {<<Tr(x[1]), x[2]>> : x \in SToSet(T.draws[l].site_pop)} IN
              /\ {x[1] : x \in pop} = AllOpen(S)
              /\ \A x \in pop : x[2] = ReactPos(K, x[1])
PartnerPopOK ==
  HasDraws => LET pop == {<<Tr(x[1]), x[2]>> : x \in SToSet(T.draws[l].partner_pop)} IN
              /\ {x[1] : x \in pop} = Compl(K, Tr(Ev.d))
              /\ \A x \in pop : x[2] = CondPos(K, Tr(Ev.d), x[1])

StepClauses ==
  LET d == Tr(Ev.d) p == Tr(Ev.p) IN
  [ C17_WeightBelowTarget |-> S.weight < K.target,
    C16_Once |-> Site \in DOMAIN S.open /\ d \in SToSet(S.open[Site]),
    C17_NeverZeroSite |-> ReactPos(K, d) /\ SitePopOK,
    C16_Complementary |-> p \in Compl(K, d) /\ Complementary(K, [links |-> <<[d |-> d, p |-> p]>>]),
    C16_BondOrder |-> Ev.o2 = 2 * d[3] /\ Ev.o2 = 2 * p[3],        \* the new bond has the order of the two descriptors it joins
    C17_NeverZeroPartner |-> CondPos(K, d, p) /\ PartnerPopOK,
    C16_PartnerOnFragment |-> Ev.f \in DOMAIN K.frags /\ Ev.t \in DOMAIN K.frags[Ev.f].desc /\ p \in SToSet(K.frags[Ev.f].desc[Ev.t]) ]
FailedNow(c) == {n \in DOMAIN c : ~c[n]}

Replayable == Site \in DOMAIN S.open /\ Ev.f \in DOMAIN K.frags /\ Ev.t \in DOMAIN K.frags[Ev.f].desc

(* final state: leftover descriptors, stop rule, masses *)
FinalOpen == [x \in {<<o[1], o[2]>> : o \in SToSet(T.final_open)} |->
                 LET o == CHOOSE y \in SToSet(T.final_open) : <<y[1], y[2]>> = x IN [i \in DOMAIN o[3] |-> Tr(o[3][i])]]
SameBagS(a, b) == Len(a) = Len(b) /\ \A x \in SToSet(a) \cup SToSet(b) : CountS(a, x) = CountS(b, x)
Abs(x) == IF x < 0 THEN -x ELSE x

FinalClauses ==
  [ C17_ReachesTarget |-> S.weight >= K.target,
    C17_StopRule |-> StopRule(K, S),
    C17_TerminalBookkeeping |-> /\ DOMAIN FinalOpen = DOMAIN S.open
                                /\ \A x \in DOMAIN S.open : SameBagS(FinalOpen[x], S.open[x]),
    C17_TerminalClosesAtom |-> TerminalClosesAtom(K, S),
    C17_TerminalsWithdrawn |-> TerminalsWithdrawn(K, S),
    C17_MassTable |-> T.K.coarse \/ \A f \in DOMAIN K.frags : MassKnown(K, f) =>
                         Abs(K.frags[f].mass - MassOf(K, f)) <= 12 * (K.frags[f].natoms * 4),
    C16_Tree |-> Tree(S) /\ T.tree_ok,
    X_StartFragmentHonoured |-> T.want_start = 0 \/ T.start = T.want_start,
    C16_NeverZero |-> NeverZero(K, S) ]

(* ---- dead ends (beyond the listed properties): the run raised instead of returning.  The events before the   ---- *)
(* ---- failure were reconstructed from the RNG log; the specification says which error the state leads to.        ---- *)
IsDead == "dead" \in DOMAIN T
DeadD == Tr(T.dead.d)
(* Which exception class a dead end raises, and at which of the draws of the step it is noticed, is incidental  *)
(* (today: IndexError from an empty population, ValueError from all-zero weights, OSError from the complement    *)
(* lookup); what the specification demands is that the run raised BECAUSE the state admits no growth step for   *)
(* the site that was drawn (or no site at all).                                                                  *)
DeadEndExplained ==
  /\ S.weight < K.target                                   \* growth was still required
  /\ T.dead.outcome # "ok"
  /\ CASE T.dead.completed_draws = 0 ->                     \* no growth site could be drawn
             \/ AllOpen(S) = {}
             \/ (K.react # {} /\ \A d \in AllOpen(S) : ~ReactPos(K, d))
       [] T.dead.completed_draws = 2 ->                     \* a site was drawn, no partner could be
             /\ DeadD \in AllOpen(S) /\ ReactPos(K, DeadD)
             /\ \/ Compl(K, DeadD) = {}
                \/ (HasRow(K, DeadD) /\ \A p \in Compl(K, DeadD) : ~CondPos(K, DeadD, p))
       [] OTHER -> FALSE

Init == /\ tid \in 1..Len(Traces) /\ l = 1 /\ bad = {}
        /\ K = Cfg
        /\ S = Start(Cfg, InitS, T.start)
Step == /\ l <= NEv /\ Replayable
        /\ bad' = bad \cup FailedNow(StepClauses)
        /\ S' = Grow(K, S, Site, Tr(Ev.d), Tr(Ev.p), Ev.f, Ev.t)
        /\ l' = l + 1 /\ UNCHANGED <<tid, K>>
Stuck == /\ l <= NEv /\ ~Replayable
         /\ bad' = bad \cup {"X_Unreplayable"} /\ l' = NEv + 2 /\ UNCHANGED <<tid, S, K>>
FinishDead == /\ l = NEv + 1 /\ IsDead
              /\ bad' = bad \cup (IF DeadEndExplained THEN {} ELSE {"X_DeadEndExplained"})
              /\ l' = NEv + 2 /\ UNCHANGED <<tid, S, K>>
              /\ PrintT(<<"V", tid, ToJson([dom |-> TRUE, steps |-> NEv, weight |-> S.weight,
                                            failed |-> bad \cup (IF DeadEndExplained THEN {} ELSE {"X_DeadEndExplained"})])>>)
Finish == /\ l = NEv + 1 /\ ~IsDead
          /\ bad' = bad \cup FailedNow(FinalClauses)
          /\ l' = NEv + 2 /\ UNCHANGED <<tid, S, K>>
          /\ PrintT(<<"V", tid, ToJson([dom |-> TRUE, steps |-> NEv, failed |-> bad \cup FailedNow(FinalClauses),
                                        weight |-> S.weight])>>)
Report == /\ l = NEv + 2 /\ "X_Unreplayable" \in bad /\ l' = NEv + 3 /\ UNCHANGED <<tid, S, K, bad>>
          /\ PrintT(<<"V", tid, ToJson([dom |-> TRUE, steps |-> NEv, failed |-> bad, weight |-> S.weight])>>)
Next == Step \/ Stuck \/ Finish \/ FinishDead \/ Report
Spec == Init /\ [][Next]_vars
=============================================================================
