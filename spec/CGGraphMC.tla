----------------------------- MODULE CGGraphMC -----------------------------
(***************************************************************************)
(* Exhaustive model of the graph grammar: TLC enumerates every token       *)
(* string of the grammar up to MaxLen tokens over a small token universe   *)
(* (the enabling conditions of the steps ARE the grammar), checks the      *)
(* design invariants of the denotation on every one of them, and emits     *)
(* every complete string as a JSON line for replay into read_cgsmiles.     *)
(* With -simulate the same module produces long random members.            *)
(***************************************************************************)
EXTENDS CGGraph, Json

CONSTANTS MaxLen,        \* maximal number of tokens
          NodeToks,      \* set of node tokens
          SymToks,       \* subset of Symbols
          RingToks,      \* set of ring-marker tokens
          MultCounts,    \* set of multiplier counts ({} = no multipliers)
          MaxDepth,      \* maximal branch nesting
          MaxOpen,       \* maximal number of simultaneously open rings
          EmitAll        \* TRUE: emit also strings ending in a fault (dangling / dup) - for C20

VARIABLES toks, rs
vars == <<toks, rs>>

Tok(k, v, n) == [k |-> k, v |-> v, n |-> n, a |-> <<>>]

Universe == NodeToks
            \cup {Tok("B", s, 0) : s \in SymToks}
            \cup RingToks
            \cup {Tok("(", "", 0), Tok(")", "", 0)}
            \cup {Tok("M", "", c) : c \in MultCounts}

(* the skeleton state treats a multiplier as transparent: behind it a node,  *)
(* a bond symbol, a branch or a branch end may follow, a ring marker may not *)
StepGen(s, t) == IF t.k = "M" THEN [s EXCEPT !.last = ")", !.pend = NoOrd, !.rafter = FALSE, !.lastpct = FALSE]
                 ELSE StepTok(s, t)

MEnabled(s, ts) ==
  /\ Len(ts) > 0
  /\ \/ s.last = "N" /\ ts[Len(ts)].k = "N"
     \/ s.last = ")" /\ ts[Len(ts)].k = ")"
     \/ s.last = "B" /\ Len(ts) > 1 /\ ts[Len(ts) - 1].k = ")"
  \* the unit is looked for in the string with the earlier multipliers written out: the anchoring node of a
  \* multiplied branch may itself carry a multiplier ([#A]|2([#B])|3)
  /\ LET e == Expand(ts) u == UnitOf(Append(e, Tok("M", "", 1)), Len(e) + 1) IN
       /\ u.start > 0
       /\ \A j \in u.start..u.stop : e[j].k # "R"

Enabled(s, ts, t) ==
  /\ Len(ts) < MaxLen
  /\ IF t.k = "M" THEN MEnabled(s, ts)
     ELSE /\ WellFormed(s, t)
          /\ (NeedsNode(s) => t.k = "N")
          /\ (s.last = "B" => t.k \in {"N", "R", "("})
          /\ (t.k = "(" => Len(s.stack) < MaxDepth)
          /\ (t.k = "R" /\ t.n \notin OpenMarkers(s) => Cardinality(s.open) < MaxOpen)
          \* once a fault has happened the string is only completed, not extended (C20 universe)
  /\ s.err = ""

Init == toks = <<>> /\ rs = InitRS
Next == \E t \in Universe : /\ Enabled(rs, toks, t)
                            /\ toks' = Append(toks, t)
                            /\ rs' = StepGen(rs, t)
Spec == Init /\ [][Next]_vars

Complete == MayEnd(rs) /\ Len(toks) > 0

(* -------------------------- design invariants --------------------------- *)
D == IF HasM(toks) THEN DenoteM(toks) ELSE rs

\* the generator's discipline is exactly the grammar
GenIsGrammar == Complete => InGrammarM(toks)

TypeOK == Complete =>
  /\ \A e \in D.edges : e[1] \in 0..(Len(D.nodes) - 1) /\ e[2] \in 0..(Len(D.nodes) - 1) /\ e[1] < e[2] /\ e[3] \in 0..4
  /\ D.prev \in -1..(Len(D.nodes) - 1)

\* at most one edge per node pair (the reader's graph is simple)
SimpleGraph == Complete => \A e, f \in D.edges : (e[1] = f[1] /\ e[2] = f[2]) => e = f

\* a fault-free complete string denotes a connected graph with n - 1 chain bonds plus its ring bonds
EdgeCount == (Complete /\ Fault(D) = "") =>
   Cardinality(D.edges) >= Len(D.nodes) - 1

\* expansion removes every multiplier and is the identity on longhand
ExpandClean == Complete => (~HasM(Expand(toks)) /\ Expand(Expand(toks)) = Expand(toks))

\* without multipliers the skeleton state IS the denotation
SkeletonIsDenote == (Complete /\ ~HasM(toks)) => rs = DenoteM(toks)

\* node-only multipliers keep the node sequence of the longhand (names in order)
NodeOnlyKeepsOrder == (Complete /\ NodeOnlyM(toks)) =>
   Len(D.nodes) = Len(SelectSeq(Expand(toks), LAMBDA t : t.k = "N"))

Emit == (Complete /\ (EmitAll \/ Fault(D) = "")) =>
           PrintT(<<"G", Len(toks), ToJson([toks |-> toks, fault |-> Fault(D)])>>)

(* ----------------------------- universes -------------------------------- *)
NodeT(name, ann) == [k |-> "N", v |-> name, n |-> 0, a |-> ann]
KW(k, v) == [k |-> k, v |-> v, eq |-> 1]
PO(v)    == [k |-> "", v |-> v, eq |-> 0]
RingT(n, form) == [k |-> "R", v |-> form, n |-> n, a |-> <<>>]

Nodes2  == {NodeT("A", <<>>), NodeT("B", <<>>)}
Nodes3  == Nodes2 \cup {NodeT("A", <<KW("q", "1")>>)}
Nodes4  == Nodes3 \cup {NodeT("C", <<PO("-0.25"), PO("0.5"), KW("foo", "bar")>>)}
Rings2  == {RingT(1, "d"), RingT(2, "d")}
Rings3  == Rings2 \cup {RingT(10, "%")}
Rings4  == Rings3 \cup {RingT(1, "%")}
SymQuick == {"=", "."}
NoMult  == {}
Mult2   == {2}
Mult3   == {3}
NoRings == {}
Mult13  == {1, 3}
Mult10  == {10, 12}
Mult123 == {1, 2, 3}
Rings1  == {RingT(1, "d")}
Nodes1  == {NodeT("A", <<>>)}
NoSym   == {}
SymOne  == {"="}
(* ring index 0 in both spellings ("0", "%00") next to index 1: 0 is a legal index like any other *)
Rings01 == {RingT(0, "d"), RingT(1, "d"), RingT(0, "%")}
SymAll  == Symbols
EQ2(k, v) == [k |-> k, v |-> v, eq |-> 2]
NodesF  == Nodes2 \cup {NodeT("A", <<EQ2("w", "ab=c")>>), NodeT("A", <<PO("1"), PO("1"), PO("2")>>),
                        NodeT("A", <<KW("q", "abc")>>), NodeT("B", <<PO("1"), KW("q", "1")>>),
                        NodeT("B", <<PO("0.5"), PO("x1")>>)}

=============================================================================
