------------------------------- MODULE FragLib -------------------------------
(***************************************************************************)
(* Fragment libraries as dictionaries that are filled by read_fragments    *)
(* (read_fragments.py: fragment_iter / read_fragments).                    *)
(*                                                                         *)
(* A block is a sequence of definitions <<name, def>> ("{#A=..,#B=..}").   *)
(* read_fragments(block, fragment_dict=d) adds the definitions of the      *)
(* block to d - only names d does not have yet ("only unique new fragments *)
(* are appended"), the first definition of a name inside one block wins -  *)
(* and returns d itself; without d a new dictionary is created.  Other     *)
(* dictionaries are not touched.  Key order is insertion order.            *)
(*                                                                         *)
(* State: dicts = Seq(dictionary), a dictionary = Seq(<<name, def>>) in    *)
(* insertion order.  History calls for the spec -> code replay.            *)
(***************************************************************************)
EXTENDS Naturals, Sequences, FiniteSets, TLC, Json

CONSTANTS Names, Defs, MaxCalls, MaxBlock

VARIABLES dicts, calls, ret
vars == <<dicts, calls, ret>>

ToSet(s) == {s[i] : i \in DOMAIN s}
KeysOf(d) == {d[i][1] : i \in DOMAIN d}
Lookup(d, n) == (CHOOSE i \in DOMAIN d : d[i][1] = n)

RECURSIVE AddAll(_, _)
AddAll(d, block) ==
  IF block = <<>> THEN d
  ELSE IF Head(block)[1] \in KeysOf(d) THEN AddAll(d, Tail(block))
       ELSE AddAll(Append(d, Head(block)), Tail(block))

Blocks == UNION {[1..n -> Names \X Defs] : n \in 1..MaxBlock}

Init == dicts = <<>> /\ calls = <<>> /\ ret = 0

(* target = 0: no dictionary is passed, a new one is created *)
Read(block, target) ==
  /\ Len(calls) < MaxCalls
  /\ IF target = 0
     THEN dicts' = Append(dicts, AddAll(<<>>, block)) /\ ret' = Len(dicts) + 1
     ELSE dicts' = [dicts EXCEPT ![target] = AddAll(@, block)] /\ ret' = target
  /\ calls' = Append(calls, [block |-> block, target |-> target])

Next == \E block \in Blocks : \E target \in 0..Len(dicts) : Read(block, target)
Spec == Init /\ [][Next]_vars

(* design invariants *)
NamesUnique == \A k \in DOMAIN dicts : \A i, j \in DOMAIN dicts[k] : dicts[k][i][1] = dicts[k][j][1] => i = j
(* what a dictionary says about a name never changes once it is there (existing names win) *)
ExistingWin == [][\A k \in DOMAIN dicts : \A i \in DOMAIN dicts[k] : dicts'[k][i] = dicts[k][i]]_vars
(* a call touches only the dictionary it was given *)
OthersUntouched == [][\A k \in DOMAIN dicts : k # ret' => dicts'[k] = dicts[k]]_vars

Emit == calls # <<>> => PrintT(<<"G", Len(calls), ToJson([calls |-> calls, dicts |-> dicts, ret |-> ret])>>)

NamesQ == {"A", "B"}
DefsQ == {1, 2}
=============================================================================
