------------------------------ MODULE OpenBonds ------------------------------
(***************************************************************************)
(* The open-bond bookkeeping underneath the sampler (cgsmiles_utils.py):   *)
(*                                                                         *)
(*   find_open_bonds(molecule, target_nodes)                               *)
(*       groups the nodes that still carry a bonding descriptor by         *)
(*       descriptor: a dictionary descriptor -> list of nodes, one entry   *)
(*       per OCCURRENCE of the descriptor (a node that carries "$1" twice  *)
(*       is listed twice), nodes in the molecule's iteration order, keys   *)
(*       in order of first occurrence; only nodes of target_nodes count.   *)
(*                                                                         *)
(*   find_complementary_bonding_descriptor(d, eligible)                    *)
(*       '$..' -> every eligible '$' descriptor of the same order (last    *)
(*                character), in the order of the eligible list; labels    *)
(*                do not matter; may be empty;                             *)
(*       '<x'  -> ['>x'] , '>x' -> ['<x'], anything else -> [itself],      *)
(*                an error (IOError) if that is not eligible.              *)
(*                                                                         *)
(* The workbench state is the molecule as the sampler sees it: a sequence  *)
(* of nodes in iteration order, each with the sequence of descriptors that *)
(* are still open.  AddNode is what merging a fragment does to that view,  *)
(* Consume is what forming a bond does (one occurrence of the descriptor   *)
(* is removed from the node's list: sample.py, `remove`).                  *)
(*                                                                         *)
(* A descriptor is <<kind, label, order>>; its text is kind+label+order.   *)
(***************************************************************************)
EXTENDS Naturals, Sequences, FiniteSets, TLC, Json, SequencesExt

CONSTANTS Descs,        \* the descriptors that may occur on the molecule
          CDescs,       \* the descriptors of the complementarity table
          MaxNodes,     \* nodes of the molecule
          MaxPerNode,   \* open descriptors per node
          MaxSteps

VARIABLES mol, steps
vars == <<mol, steps>>

SToSet(s) == {s[i] : i \in DOMAIN s}

RECURSIVE SumLen(_)
SumLen(s) == IF s = <<>> THEN 0 ELSE Len(Head(s)) + SumLen(Tail(s))

DropAt(s, i) == [j \in 1..(Len(s) - 1) |-> IF j < i THEN s[j] ELSE s[j + 1]]

(* ----------------------------- find_open_bonds -------------------------- *)
(* all occurrences <<node, descriptor>> in iteration order, nodes restricted to T *)
RECURSIVE Occ(_, _, _)
Occ(m, n, T) ==
  IF n > Len(m) THEN <<>>
  ELSE (IF n \in T THEN [i \in DOMAIN m[n] |-> <<n, m[n][i]>>] ELSE <<>>) \o Occ(m, n + 1, T)

RECURSIVE FirstSeen(_, _)
FirstSeen(occ, seen) ==
  IF occ = <<>> THEN <<>>
  ELSE IF Head(occ)[2] \in seen THEN FirstSeen(Tail(occ), seen)
       ELSE <<Head(occ)[2]>> \o FirstSeen(Tail(occ), seen \cup {Head(occ)[2]})

NodesOf(occ, d) == LET sel == SelectSeq(occ, LAMBDA o : o[2] = d) IN [i \in DOMAIN sel |-> sel[i][1]]

(* the dictionary as a sequence of <<descriptor, nodes>> in key order *)
OpenBonds(m, T) ==
  LET occ == Occ(m, 1, T)
      keys == FirstSeen(occ, {})
  IN [i \in DOMAIN keys |-> <<keys[i], NodesOf(occ, keys[i])>>]

(* ------------------- find_complementary_bonding_descriptor ------------- *)
Flip(d) == CASE d[1] = "<" -> <<">", d[2], d[3]>>
             [] d[1] = ">" -> <<"<", d[2], d[3]>>
             [] OTHER -> d

(* result: [ok |-> TRUE, out |-> sequence] or [ok |-> FALSE] (the code raises) *)
Complementary(d, E) ==
  IF d[1] = "$" /\ E # <<>>
  THEN [ok |-> TRUE, out |-> SelectSeq(E, LAMBDA e : e[1] = "$" /\ e[3] = d[3])]
  ELSE IF Flip(d) \in SToSet(E) THEN [ok |-> TRUE, out |-> <<Flip(d)>>]
       ELSE [ok |-> FALSE, out |-> <<>>]

(* ------------------------------- the workbench -------------------------- *)
Init == mol = <<>> /\ steps = 0

Lists == UNION {[1..n -> Descs] : n \in 0..MaxPerNode}

AddNode(l) == /\ steps < MaxSteps /\ Len(mol) < MaxNodes
              /\ mol' = Append(mol, l)
              /\ steps' = steps + 1

Consume(n, i) == /\ steps < MaxSteps /\ n \in DOMAIN mol /\ i \in DOMAIN mol[n]
                 /\ mol' = [mol EXCEPT ![n] = DropAt(@, i)]
                 /\ steps' = steps + 1

Add == \E l \in Lists : AddNode(l)
Bond == \E n \in DOMAIN mol : \E i \in DOMAIN mol[n] : Consume(n, i)
Next == Add \/ Bond
Spec == Init /\ [][Next]_vars

(* ------------------------------ design invariants ----------------------- *)
Targets == SUBSET (1..Len(mol))

(* every open occurrence on a target node is listed exactly once, nothing else is *)
Partition == \A T \in Targets :
  LET ob == OpenBonds(mol, T) IN
    /\ SumLen([i \in DOMAIN ob |-> ob[i][2]]) = SumLen([n \in DOMAIN mol |-> IF n \in T THEN mol[n] ELSE <<>>])
    /\ \A i \in DOMAIN ob : \A j \in DOMAIN ob[i][2] :
         ob[i][2][j] \in T /\ ob[i][1] \in SToSet(mol[ob[i][2][j]])
    /\ \A i, j \in DOMAIN ob : ob[i][1] = ob[j][1] => i = j
    /\ \A i \in DOMAIN ob : ob[i][2] # <<>>
    /\ \A i \in DOMAIN ob : \A j, k \in DOMAIN ob[i][2] : j < k => ob[i][2][j] <= ob[i][2][k]

(* restricting the targets only removes entries *)
Monotone == \A T \in Targets : \A i \in DOMAIN OpenBonds(mol, T) :
  \E k \in DOMAIN OpenBonds(mol, 1..Len(mol)) : OpenBonds(mol, 1..Len(mol))[k][1] = OpenBonds(mol, T)[i][1]

(* forming a bond removes exactly one occurrence from the view *)
ConsumeOne == [][SumLen(mol') = SumLen(mol) - 1 \/ Len(mol') = Len(mol) + 1]_vars

(* complementarity over every eligible list (sequences of distinct descriptors): *)
Eligible == UNION {{e \in [1..n -> CDescs] : \A i, j \in 1..n : e[i] = e[j] => i = j} : n \in 0..3}
ComplSound == \A d \in CDescs : \A E \in Eligible :
  LET c == Complementary(d, E) IN
    /\ c.ok => SToSet(c.out) \subseteq SToSet(E)
    /\ c.ok => \A p \in SToSet(c.out) : p[3] = d[3]                                  \* same bond order
    /\ (c.ok /\ d[1] \in {"<", ">"}) => c.out = <<Flip(d)>>
    /\ (c.ok /\ d[1] \in {"<", ">"}) => Complementary(Flip(d), <<d>>).out = <<d>>     \* an involution
    /\ (d[1] = "$" /\ E # <<>>) => c.ok                                              \* '$' never raises on a non-empty list
    /\ (d[1] = "$" /\ c.ok) => \A e \in SToSet(E) : (e[1] = "$" /\ e[3] = d[3]) => e \in SToSet(c.out)

(* ----------------------------------- emission --------------------------- *)
Emit == LET ts == SetToSeq(Targets) IN
  PrintT(<<"G", steps, ToJson([mol |-> mol,
                  views |-> [i \in DOMAIN ts |-> [targets |-> ts[i], open |-> OpenBonds(mol, ts[i])]]])>>)

EmitCompl == steps = 0 =>
  \A d \in CDescs : \A E \in Eligible :
    PrintT(<<"K", 0, ToJson([d |-> d, E |-> E, res |-> Complementary(d, E)])>>)

DescsQ == {<<"$", "", 1>>, <<"$", "A", 1>>, <<"$", "", 2>>, <<"<", "", 1>>, <<">", "", 1>>, <<">", "A", 1>>, <<"!", "", 1>>}
DescsMol == {<<"$", "", 1>>, <<"<", "A", 1>>, <<">", "A", 1>>}
=============================================================================
