------------------------------ MODULE CGGraph ------------------------------
(***************************************************************************)
(* The CGsmiles graph notation (read_cgsmiles.py) as a token-level state   *)
(* machine.  A string is a sequence of tokens                              *)
(*    [k |-> kind, v |-> text, n |-> number, a |-> annotation entries]     *)
(* with kinds                                                              *)
(*    "N" node [#v;a...]       "B" bond symbol v \in { . - = # $ }        *)
(*    "R" ring marker n, written as a digit (v = "d") or %nn (v = "%")    *)
(*    "(" ")" branch open/close   "M" multiplier |n                        *)
(*                                                                         *)
(* WellFormed(rs, t) is the grammar (the enabling condition of the step),  *)
(* StepTok(rs, t) the transition, Denote(ts) the graph a string denotes,   *)
(* Expand(ts) the longhand of a string with multipliers (C05).             *)
(***************************************************************************)
EXTENDS Naturals, Integers, Sequences, FiniteSets, TLC, Annot

SymOrder == "." :> 0 @@ "-" :> 1 @@ "=" :> 2 @@ "#" :> 3 @@ "$" :> 4
Symbols  == DOMAIN SymOrder

NoNode == -1
NoOrd  == -1

Pair(a, b) == IF a < b THEN <<a, b>> ELSE <<b, a>>

(* reader state *)
InitRS ==
  [ nodes |-> <<>>,     \* sequence of [name, ann]; node id = position - 1
    edges |-> {},       \* set of <<a, b, order>> with a < b
    prev  |-> NoNode,   \* node the next chain bond starts from
    cur   |-> NoNode,   \* node ring markers attach to (last node written)
    pend  |-> NoOrd,    \* order given by a bond symbol not yet used
    stack |-> <<>>,     \* branch anchors
    open  |-> {},       \* open ring bonds <<marker, node, order>>
    last  |-> "S",      \* kind of the previous token (S = start)
    lastpct |-> FALSE,  \* previous token was a %nn ring marker
    rafter  |-> FALSE,  \* a ring marker may still follow (we are directly behind a node)
    err   |-> "" ]      \* "" | "dup" : ring bond duplicating an existing edge

Bonded(rs, a, b) == \E e \in rs.edges : e[1] = Pair(a, b)[1] /\ e[2] = Pair(a, b)[2]
OpenMarkers(rs)  == {o[1] : o \in rs.open}
OpenOf(rs, m)    == CHOOSE o \in rs.open : o[1] = m
Ord(rs)          == IF rs.pend = NoOrd THEN 1 ELSE rs.pend

(* ---------------------------------------------------------------------- *)
(* The grammar                                                             *)
(* ---------------------------------------------------------------------- *)
WellFormed(rs, t) ==
  CASE t.k = "N" -> rs.last \in {"S", "N", "B", "R", "(", ")"}
    [] t.k = "B" -> /\ t.v \in Symbols
                    /\ rs.last \in {"N", "R", ")"}
    [] t.k = "R" -> /\ t.n \in 0..99 /\ t.v \in {"d", "%"}
                    /\ (t.v = "d" => t.n < 10)
                    /\ rs.rafter                      \* directly behind a node (and its other markers)
                    /\ rs.last \in {"N", "R", "B"}
                    /\ ~(rs.lastpct /\ t.v = "d" /\ rs.last = "R")  \* %10 followed by digit is one marker
                    \* a bond symbol only in front of an opening marker
                    /\ (rs.last = "B" => t.n \notin OpenMarkers(rs))
                    \* a node does not close a ring on itself
                    /\ (t.n \in OpenMarkers(rs) => OpenOf(rs, t.n)[2] # rs.cur)
    [] t.k = "(" -> /\ rs.last \in {"N", "R", ")", "B"}
                    /\ rs.prev # NoNode
    [] t.k = ")" -> /\ rs.last \in {"N", "R", ")"}
                    /\ Len(rs.stack) > 0
    [] OTHER     -> FALSE

(* what may follow: a bond symbol must be used, "(" must be followed by a node *)
MayEnd(rs) == rs.last \in {"N", "R", ")"} /\ Len(rs.stack) = 0
NeedsNode(rs) == rs.last = "("

StepTok(rs, t) ==
  CASE t.k = "N" ->
         LET id == Len(rs.nodes) IN
         [rs EXCEPT !.nodes = Append(@, [name |-> t.v, ann |-> t.a]),
                    !.edges = IF rs.prev = NoNode THEN @
                              ELSE @ \cup {<<rs.prev, id, Ord(rs)>>},
                    !.prev = id, !.cur = id, !.pend = NoOrd, !.last = "N",
                    !.lastpct = FALSE, !.rafter = TRUE]
    [] t.k = "B" ->
         [rs EXCEPT !.pend = SymOrder[t.v], !.last = "B", !.lastpct = FALSE]
    [] t.k = "R" ->
         IF t.n \in OpenMarkers(rs)
         THEN LET o == OpenOf(rs, t.n) IN
              [rs EXCEPT !.open = @ \ {o},
                         !.edges = IF Bonded(rs, o[2], rs.cur) THEN @
                                   ELSE @ \cup {<<Pair(o[2], rs.cur)[1], Pair(o[2], rs.cur)[2], o[3]>>},
                         !.err = IF Bonded(rs, o[2], rs.cur) THEN "dup" ELSE @,
                         !.last = "R", !.lastpct = (t.v = "%")]
         ELSE [rs EXCEPT !.open = @ \cup {<<t.n, rs.cur, Ord(rs)>>},
                         !.pend = NoOrd, !.last = "R", !.lastpct = (t.v = "%")]
    [] t.k = "(" ->
         [rs EXCEPT !.stack = Append(@, rs.prev), !.last = "(", !.lastpct = FALSE, !.rafter = FALSE]
    [] t.k = ")" ->
         [rs EXCEPT !.prev = rs.stack[Len(rs.stack)],
                    !.stack = SubSeq(@, 1, Len(@) - 1),
                    !.pend = NoOrd, !.last = ")", !.lastpct = FALSE, !.rafter = FALSE]

(* A bond symbol in front of "(" is kept for the first node of the branch; *)
(* after ")" the pending order is cleared and a symbol written there is    *)
(* the order of the next bond from the anchor.                             *)

RECURSIVE Run(_, _, _)
Run(rs, ts, i) == IF i > Len(ts) THEN rs ELSE Run(StepTok(rs, ts[i]), ts, i + 1)
Denote(ts) == Run(InitRS, ts, 1)

RECURSIVE WFFrom(_, _, _)
WFFrom(rs, ts, i) ==
  IF i > Len(ts) THEN MayEnd(rs)
  ELSE /\ WellFormed(rs, ts[i])
       /\ (NeedsNode(rs) => ts[i].k = "N")
       /\ (rs.last = "B" => ts[i].k \in {"N", "R", "("})
       /\ WFFrom(StepTok(rs, ts[i]), ts, i + 1)
(* the token string is a string of the grammar (no multipliers) *)
InGrammar(ts) == Len(ts) > 0 /\ WFFrom(InitRS, ts, 1)

(* outcome of reading a grammatical string *)
Outcome(rs) == IF rs.err = "dup" THEN "exc:SyntaxError"
               ELSE IF rs.open # {} THEN "exc:SyntaxError"   \* dangling ring index
               ELSE "ok"
Fault(rs) == IF rs.err = "dup" THEN "dup" ELSE IF rs.open # {} THEN "dangling" ELSE ""

(* ---------------------------------------------------------------------- *)
(* Annotations on nodes: the node text "name;e1;e2" binds with the graph   *)
(* dialect, the name being the first positional entry.                     *)
(* ---------------------------------------------------------------------- *)
NodeEntries(node) == <<[k |-> "", v |-> node.name, eq |-> 0]>> \o node.ann
NodeBind(node)    == Bind(NodeEntries(node), GraphDialect)
AnnErr(rs) == LET bad == {i \in DOMAIN rs.nodes : NodeBind(rs.nodes[i]).err # ""}
              IN IF bad = {} THEN ""
                 ELSE NodeBind(rs.nodes[CHOOSE i \in bad : \A j \in bad : i <= j]).err
AnnInDom(ts) == \A i \in DOMAIN ts : ts[i].k = "N" =>
                   AnnInDomain(<<[k |-> "", v |-> ts[i].v, eq |-> 0]>> \o ts[i].a, GraphDialect)

(* ---------------------------------------------------------------------- *)
(* Multipliers (C05): |n is shorthand for writing the unit out n times.    *)
(* The unit is the node in front of the multiplier, or the branch in front *)
(* of it together with its anchoring node (and the bond symbol between     *)
(* them).  A bond symbol between ")" and "|n" is the bond between          *)
(* consecutive copies; a bond symbol behind "|n" is the bond to whatever   *)
(* follows.                                                                *)
(* ---------------------------------------------------------------------- *)
HasM(ts) == \E i \in DOMAIN ts : ts[i].k = "M"
FirstM(ts) == CHOOSE i \in DOMAIN ts : ts[i].k = "M" /\ \A j \in 1..(i - 1) : ts[j].k # "M"

RECURSIVE MatchOpen(_, _, _)
(* index of the "(" matching the ")" at position j; depth counts closings seen *)
MatchOpen(ts, j, depth) ==
  IF j < 1 THEN 0
  ELSE IF ts[j].k = ")" THEN MatchOpen(ts, j - 1, depth + 1)
  ELSE IF ts[j].k = "(" THEN (IF depth = 1 THEN j ELSE MatchOpen(ts, j - 1, depth - 1))
  ELSE MatchOpen(ts, j - 1, depth)

(* [start, stop, sep] of the unit of the multiplier at position i; start = 0 if none *)
UnitOf(ts, i) ==
  LET hasSep == i > 2 /\ ts[i - 1].k = "B" /\ ts[i - 2].k = ")"
      j == IF hasSep THEN i - 2 ELSE i - 1
      sep == IF hasSep THEN <<ts[i - 1]>> ELSE <<>>
  IN IF j < 1 THEN [start |-> 0, stop |-> 0, sep |-> <<>>]
     ELSE IF ts[j].k = "N" /\ ~hasSep THEN [start |-> j, stop |-> j, sep |-> <<>>]
     ELSE IF ts[j].k = ")" THEN
        LET p == MatchOpen(ts, j, 0)
            s == IF p > 1 /\ ts[p - 1].k = "N" THEN p - 1
                 ELSE IF p > 2 /\ ts[p - 1].k = "B" /\ ts[p - 2].k = "N" THEN p - 2
                 ELSE 0
        IN [start |-> s, stop |-> j, sep |-> sep]
     ELSE [start |-> 0, stop |-> 0, sep |-> <<>>]

RECURSIVE Repeat(_, _, _)
Repeat(unit, sep, n) == IF n <= 1 THEN unit ELSE unit \o sep \o Repeat(unit, sep, n - 1)

ExpandOne(ts, i) ==
  LET u == UnitOf(ts, i)
      unit == SubSeq(ts, u.start, u.stop)
  IN SubSeq(ts, 1, u.start - 1) \o Repeat(unit, u.sep, ts[i].n) \o SubSeq(ts, i + 1, Len(ts))

RECURSIVE Expand(_)
Expand(ts) == IF ~HasM(ts) THEN ts ELSE Expand(ExpandOne(ts, FirstM(ts)))

(* domain of multipliers: each has a unit; no ring markers inside a unit   *)
(* or on its anchor; count >= 1.                                           *)
RECURSIVE MInDomain(_)
MInDomain(ts) ==
  IF ~HasM(ts) THEN TRUE
  ELSE LET i == FirstM(ts) u == UnitOf(ts, i) IN
       /\ ts[i].n \in 1..30
       /\ u.start > 0
       /\ \A j \in u.start..u.stop : ts[j].k # "R"
       /\ (i < Len(ts) => ts[i + 1].k \notin {"R", "M"})
       /\ MInDomain(ExpandOne(ts, i))

DenoteM(ts) == Denote(Expand(ts))
InGrammarM(ts) == Len(ts) > 0 /\ MInDomain(ts) /\ InGrammar(Expand(ts))

(* only node multipliers: then numbering is preserved as well *)
NodeOnlyM(ts) == \A i \in DOMAIN ts : ts[i].k = "M" => (i > 1 /\ ts[i - 1].k = "N")

(* ---------------------------------------------------------------------- *)
(* Named deviation (known finding C04/graph.double_branch_close):          *)
(* the implementation closes only one branch for a run of ")" that         *)
(* directly follows a node.                                                *)
(* ---------------------------------------------------------------------- *)
RECURSIVE RunDev(_, _, _)
RunDev(rs, ts, i) ==
  IF i > Len(ts) THEN rs
  ELSE IF ts[i].k = ")" /\ i > 1 /\ ts[i - 1].k = ")"
       THEN RunDev([rs EXCEPT !.last = ")"], ts, i + 1)      \* CloseBranch_PopsOnce: swallowed
  ELSE IF ts[i].k = "B" /\ i > 2 /\ ts[i - 1].k = ")" /\ ts[i - 2].k = ")"
       THEN RunDev(rs, ts, i + 1)                            \* ... and a bond symbol behind it is not seen
       ELSE RunDev(StepTok(rs, ts[i]), ts, i + 1)
DenoteDev(ts) == RunDev(InitRS, ts, 1)
HasDoubleClose(ts) == \E i \in 2..Len(ts) : ts[i].k = ")" /\ ts[i - 1].k = ")"

(* ---------------------------------------------------------------------- *)
(* Projection used by the trace specs                                      *)
(* ---------------------------------------------------------------------- *)
EdgeSet(rs) == rs.edges
NodeNames(rs) == [i \in DOMAIN rs.nodes |-> rs.nodes[i].name]
NodeAttrs(rs) == [i \in DOMAIN rs.nodes |-> NodeBind(rs.nodes[i]).attrs]

=============================================================================
