SPECIFICATION Spec
CONSTANTS
  MaxLen = 5
  AtomToks <- AtomsQ
  DescToks <- DescQ
  SymToks <- SymsQ
  RingToks <- RingsQ
  SlashToks <- NoSlash
  Coarse = FALSE
  MaxDepth = 1
  MaxDesc = 2
INVARIANT InsertionInert
INVARIANT EveryDescriptorOnce
INVARIANT OrdersFromSymbols
INVARIANT GraphOK
INVARIANT Emit
CHECK_DEADLOCK FALSE
