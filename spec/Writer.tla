------------------------------- MODULE Writer -------------------------------
(***************************************************************************)
(* An abstract writer of the CGsmiles graph notation (write_cgsmiles.py):  *)
(* a depth-first traversal chooses a spanning tree (actions Descend /      *)
(* Backtrack, every choice explored by TLC), Serialise writes the tree in  *)
(* the reader's grammar - bond symbol in front of a branch, in front of    *)
(* the node for the last child, in front of the OPENING ring marker for a  *)
(* ring bond.  Theorem RoundTrip: CGGraph!Denote of what is written is the *)
(* original graph (names and orders), for tree, branch and ring edges of   *)
(* every order 0-4.  This is the design claim that a correct writer exists *)
(* inside the reader's grammar; the implementation's output is validated   *)
(* against Denote, not against this particular writer.                     *)
(***************************************************************************)
EXTENDS CGGraph, Json

CONSTANTS MaxN, Orders

VARIABLES n, gedges, parent, kids, stack, phase
vars == <<n, gedges, parent, kids, stack, phase>>

NodeSet == 0..(n - 1)
Name(i) == "N" \o ToString(i)
PairsOf(k) == {<<a, b>> \in (0..(k - 1)) \X (0..(k - 1)) : a < b}

Adj(u) == {e[2] : e \in {f \in gedges : f[1] = u}} \cup {e[1] : e \in {f \in gedges : f[2] = u}}
RECURSIVE Reach(_, _)
Reach(S, k) == IF k = 0 THEN S ELSE Reach(S \cup UNION {Adj(u) : u \in S}, k - 1)
Connected == Reach({0}, n) = NodeSet

OrderOf(a, b) == (CHOOSE e \in gedges : e[1] = Pair(a, b)[1] /\ e[2] = Pair(a, b)[2])[3]

Init == /\ n \in 1..MaxN
        /\ gedges \in {S \in SUBSET {<<p[1], p[2], o>> : p \in PairsOf(MaxN), o \in Orders} :
                          \A e, f \in S : (e[1] = f[1] /\ e[2] = f[2]) => e = f}
        /\ \A e \in gedges : e[2] < n
        /\ Connected
        /\ \E s \in NodeSet : stack = <<s>> /\ parent = [i \in NodeSet |-> IF i = s THEN -1 ELSE -2]
        /\ kids = [i \in NodeSet |-> <<>>]
        /\ phase = "dfs"

Visited == {i \in NodeSet : parent[i] # -2}
Top == stack[Len(stack)]
Descend == /\ phase = "dfs" /\ Len(stack) > 0
           /\ \E v \in Adj(Top) \ Visited :
                /\ parent' = [parent EXCEPT ![v] = Top]
                /\ kids' = [kids EXCEPT ![Top] = Append(@, v)]
                /\ stack' = Append(stack, v)
           /\ UNCHANGED <<n, gedges, phase>>
Backtrack == /\ phase = "dfs" /\ Len(stack) > 0 /\ Adj(Top) \ Visited = {}
             /\ stack' = SubSeq(stack, 1, Len(stack) - 1)
             /\ phase' = IF Len(stack) = 1 THEN "done" ELSE "dfs"
             /\ UNCHANGED <<n, gedges, parent, kids>>
Next == Descend \/ Backtrack
Spec == Init /\ [][Next]_vars

(* ------------------------------ serialisation ---------------------------- *)
Root == CHOOSE i \in NodeSet : parent[i] = -1
TreeEdge(a, b) == parent[a] = b \/ parent[b] = a
RingEdges == {e \in gedges : ~TreeEdge(e[1], e[2])}
(* pre-order position of every node: ring bonds are opened at the endpoint written first *)
RECURSIVE Pre(_)
Pre(u) == <<u>> \o (LET F[i \in 0..Len(kids[u])] == IF i = 0 THEN <<>> ELSE F[i - 1] \o Pre(kids[u][i]) IN F[Len(kids[u])])
PreOrder == Pre(Root)
PosOf(u) == CHOOSE i \in DOMAIN PreOrder : PreOrder[i] = u
(* marker of a ring bond: its index in a fixed enumeration (all distinct, so never reused) *)
Before(a, b) == a[1] < b[1] \/ (a[1] = b[1] /\ a[2] < b[2])
RingIndex(e) == Cardinality({f \in RingEdges : Before(<<f[1], f[2]>>, <<e[1], e[2]>>)}) + 1

Tk(k, v, m) == [k |-> k, v |-> v, n |-> m, a |-> <<>>]
SymOfOrder == 0 :> "." @@ 1 :> "-" @@ 2 :> "=" @@ 3 :> "#" @@ 4 :> "$"
SymTok(o) == IF o = 1 THEN <<>> ELSE <<Tk("B", SymOfOrder[o], 0)>>

RingToksAt(u) ==
  LET rs == {e \in RingEdges : u \in {e[1], e[2]}}
      F[S \in SUBSET rs] ==
        IF S = {} THEN <<>>
        ELSE LET e == CHOOSE x \in S : \A y \in S : RingIndex(x) <= RingIndex(y)
                 other == IF e[1] = u THEN e[2] ELSE e[1]
                 opening == PosOf(u) < PosOf(other)
                 mk == Tk("R", IF RingIndex(e) < 10 THEN "d" ELSE "%", RingIndex(e))
             IN (IF opening THEN SymTok(e[3]) ELSE <<>>) \o <<mk>> \o F[S \ {e}]
  IN F[rs]

RECURSIVE Ser(_)
Ser(u) ==
  <<Tk("N", Name(u), 0)>> \o RingToksAt(u) \o
  (LET F[i \in 0..Len(kids[u])] ==
        IF i = 0 THEN <<>>
        ELSE LET c == kids[u][i] last == i = Len(kids[u]) IN
             F[i - 1] \o SymTok(OrderOf(u, c)) \o
             (IF last THEN Ser(c) ELSE <<Tk("(", "", 0)>> \o Ser(c) \o <<Tk(")", "", 0)>>)
   IN F[Len(kids[u])])
Written == Ser(Root)

(* ------------------------------- theorem --------------------------------- *)
D == Denote(Written)
IdOfName(nm) == CHOOSE i \in NodeSet : Name(i) = nm
RoundTrip == phase = "done" =>
  /\ InGrammar(Written)
  /\ Fault(D) = ""
  /\ Len(D.nodes) = n
  /\ {D.nodes[i].name : i \in DOMAIN D.nodes} = {Name(i) : i \in NodeSet}
  /\ {<<Pair(IdOfName(D.nodes[e[1] + 1].name), IdOfName(D.nodes[e[2] + 1].name))[1],
        Pair(IdOfName(D.nodes[e[1] + 1].name), IdOfName(D.nodes[e[2] + 1].name))[2], e[3]>> : e \in D.edges} = gedges
(* the documented positions of the bond symbol are all exercised: no symbol ever directly behind "(" *)
NoSymbolInsideBranch == phase = "done" =>
  \A i \in 1..(Len(Written) - 1) : Written[i].k = "(" => Written[i + 1].k = "N"

Emit == phase = "done" => PrintT(<<"G", n, ToJson([n |-> n, edges |-> gedges])>>)
Ord012 == {0, 1, 2}
Ord01234 == {0, 1, 2, 3, 4}
Ord12 == {1, 2}
=============================================================================
