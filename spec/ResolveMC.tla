----------------------------- MODULE ResolveMC -----------------------------
(***************************************************************************)
(* Configuration generator of the resolver checks: every base graph of the *)
(* bounded graph grammar (CGGraphMC: chains, branches, rings, bond orders  *)
(* 0-2, virtual nodes "V") x every fragment library of ResolveLibs x both  *)
(* matching conventions.  Each complete configuration is emitted as JSON   *)
(* and replayed through MoleculeResolver; the expected outcome (ok /       *)
(* SyntaxError for a bonded fragment-less node) is computed by Resolve.    *)
(***************************************************************************)
EXTENDS CGGraphMC, ResolveLibs

CONSTANTS MaxNodes, LibSel

VARIABLES lib, legacy
rvars == <<toks, rs, lib, legacy>>

RInit == Init /\ lib \in LibSel /\ legacy \in BOOLEAN
RNext == /\ Next /\ UNCHANGED <<lib, legacy>>
         /\ Len(rs'.nodes) <= MaxNodes
Spec2 == RInit /\ [][RNext]_rvars

RealCount == Cardinality({i \in DOMAIN rs.nodes : rs.nodes[i].name # "V"})
REmit == (Complete /\ Fault(D) = "" /\ RealCount >= 1) =>
   PrintT(<<"G", Len(toks), ToJson([base |-> toks, lib |-> lib, legacy |-> legacy])>>)

NodesABV == {NodeT("A", <<>>), NodeT("B", <<>>), NodeT("V", <<>>)}
NodesAB  == {NodeT("A", <<>>), NodeT("B", <<>>)}
SymDotEq == {".", "="}
LibsAll  == LibIds
LibIdx(nm) == CHOOSE i \in LibIds : AllLibs[i].name = nm
LibsRingVirtual == {LibIdx("plain"), LibIdx("cgplain"), LibIdx("squashmix")}
NodesAV  == {NodeT("A", <<>>), NodeT("V", <<>>)}
SymDot   == {"."}
=============================================================================
