---------------------------- MODULE FragTextMC ----------------------------
(***************************************************************************)
(* Exhaustive model of fragment texts: every token string of the fragment  *)
(* grammar up to MaxLen tokens (descriptors at every allowed position, in  *)
(* every count and order), with the design theorems                        *)
(*   - inserting descriptors changes neither the cleaned text nor the      *)
(*     fragment graph,                                                     *)
(*   - every written descriptor is reported exactly once, on an atom.      *)
(* Complete strings are emitted for replay into strip_bonding_descriptors. *)
(***************************************************************************)
EXTENDS FragText, Json

CONSTANTS MaxLen, AtomToks, DescToks, SymToks, RingToks, SlashToks, Coarse, MaxDepth, MaxDesc

VARIABLES toks
vars == <<toks>>

T0(k, v, n) == [k |-> k, v |-> v, n |-> n, a |-> <<>>, el |-> "", ar |-> FALSE, ch |-> 0, hc |-> 0]

Universe == AtomToks \cup DescToks \cup {T0("B", s, 0) : s \in SymToks} \cup RingToks
            \cup {T0("(", "", 0), T0(")", "", 0)} \cup SlashToks

Count(ts, k) == Cardinality({i \in DOMAIN ts : ts[i].k = k})
Depth(ts) == Count(ts, "(") - Count(ts, ")")

Init == toks = <<>>
Next == \E t \in Universe :
          /\ Len(toks) < MaxLen
          /\ LET ts == Append(toks, t) IN
               /\ PrefixOK(ts, Coarse)
               /\ Depth(ts) <= MaxDepth
               /\ Count(ts, "D") <= MaxDesc
               /\ DenoteF(ts, Coarse).err = ""
               /\ Cardinality(DenoteF(ts, Coarse).open) <= 1
          /\ toks' = Append(toks, t)
Spec == Init /\ [][Next]_vars

Complete == Len(toks) > 0 /\ CanEnd(toks, Coarse)

(* the text with its descriptors (and their order symbols) removed *)
KeepIdx(ts) == {i \in DOMAIN ts : ts[i].k # "D" /\ ~(ts[i].k = "B" /\ SymRole(ts, i) # "bond")}
RECURSIVE Pick(_, _)
Pick(ts, i) == IF i > Len(ts) THEN <<>>
               ELSE (IF i \in KeepIdx(ts) THEN <<ts[i]>> ELSE <<>>) \o Pick(ts, i + 1)
Plain(ts) == Pick(ts, 1)

F == DenoteF(toks, Coarse)

\* inserting descriptors changes neither the cleaned text nor the graph of the fragment
InsertionInert == Complete =>
   /\ Clean(Plain(toks)) = Clean(toks)
   /\ DenoteF(Plain(toks), Coarse).bonds = F.bonds
   /\ Len(DenoteF(Plain(toks), Coarse).atoms) = Len(F.atoms)

\* every written descriptor is reported exactly once, on an existing atom
RECURSIVE SumLen(_, _)
SumLen(seqs, i) == IF i > Len(seqs) THEN 0 ELSE Len(seqs[i]) + SumLen(seqs, i + 1)
EveryDescriptorOnce == Complete => SumLen(F.desc, 1) = Count(toks, "D") /\ Len(F.desc) = Len(F.atoms)

\* a descriptor's order is the symbol written next to it, and that symbol is no bond of the fragment
OrdersFromSymbols == Complete =>
   \A i \in DOMAIN toks : (toks[i].k = "B" /\ SymRole(toks, i) # "bond") =>
       \/ (i > 1 /\ toks[i - 1].k = "D" /\ DescOrder(toks, i - 1) = FSymOrder[toks[i].v])
       \/ (i < Len(toks) /\ toks[i + 1].k = "D" /\ DescOrder(toks, i + 1) = FSymOrder[toks[i].v])

\* the fragment graph is simple and its bonds join existing atoms
GraphOK == Complete =>
   /\ \A e \in F.bonds : e[1] < e[2] /\ e[2] < Len(F.atoms) /\ e[3] \in {0, 2, 3, 4, 6, 8}
   /\ \A e, f \in F.bonds : (e[1] = f[1] /\ e[2] = f[2]) => e = f

Emit == Complete => PrintT(<<"G", Len(toks), ToJson([toks |-> toks])>>)

(* ----------------------------- universes -------------------------------- *)
Bare(v, el, ar)     == [k |-> "A", v |-> v, n |-> 0, a |-> <<>>, el |-> el, ar |-> ar, ch |-> 0, hc |-> -2]
Brk(v, el, ch, hc, a) == [k |-> "A", v |-> v, n |-> 0, a |-> a, el |-> el, ar |-> FALSE, ch |-> ch, hc |-> hc]
Dsc(kind, label)    == [k |-> "D", v |-> kind, n |-> 0, a |-> <<>>, el |-> label, ar |-> FALSE, ch |-> 0, hc |-> 0]
RingF(n, form)      == [k |-> "R", v |-> form, n |-> n, a |-> <<>>, el |-> "", ar |-> FALSE, ch |-> 0, hc |-> 0]
Sl(c)               == [k |-> "Z", v |-> c, n |-> 0, a |-> <<>>, el |-> "", ar |-> FALSE, ch |-> 0, hc |-> 0]
FKW(k, v) == [k |-> k, v |-> v, eq |-> 1]
FPO(v)    == [k |-> "", v |-> v, eq |-> 0]

AtomsQ == {Bare("C", "C", FALSE), Bare("Cl", "Cl", FALSE), Bare("S", "S", FALSE), Bare("c", "C", TRUE),
           Brk("[O-]", "O", -1, 0, <<>>), Brk("[C]", "C", 0, 0, <<FPO("0.5")>>)}
AtomsT == AtomsQ \cup {Bare("N", "N", FALSE), Bare("O", "O", FALSE), Bare("n", "N", TRUE), Bare("o", "O", TRUE), Bare("Br", "Br", FALSE),
           Brk("[NH3+]", "N", 1, 3, <<>>), Brk("[CH]", "C", 0, 1, <<FKW("x", "R"), FKW("foo", "bar")>>)}
AtomsCG == {Brk("[#A]", "A", 0, 0, <<>>), Brk("[#B]", "B", 0, 0, <<FKW("w", "0.5")>>),
            Brk("[#A]", "A", 0, 0, <<FKW("foo", "bar")>>)}
AtomsW == {Bare("C", "C", FALSE), Bare("N", "N", FALSE), Bare("c", "C", TRUE), Bare("Cl", "Cl", FALSE),
           Brk("[O-]", "O", -1, 0, <<>>)}
AtomsCGW == {Brk("[#A]", "A", 0, 0, <<>>), Brk("[#B]", "B", 0, 0, <<>>)}
SymsW  == {".", "-", "=", "#"}
DescQ  == {Dsc("$", ""), Dsc(">", "A"), Dsc("!", "")}
DescT  == {Dsc("$", ""), Dsc("$", "A"), Dsc(">", ""), Dsc("<", "1A"), Dsc("!", "")}
SymsQ  == {"=", ":"}
SymsT  == {"-", "=", "#", ":"}
SymsA  == {".", "-", "=", "#", "$", ":"}
RingsQ == {RingF(1, "d")}
RingsT == {RingF(1, "d"), RingF(10, "%")}
(* one atom, one descriptor, no symbols: longer strings with sibling and nested branches (branch anchors) *)
AtomsC == {Bare("C", "C", FALSE)}
AtomsCG1 == {Brk("[#A]", "A", 0, 0, <<>>)}
DescD == {Dsc("$", "")}
NoSyms == {}
NoRingsF == {}
NoSlash == {}
Slashes == {Sl("/"), Sl("\\")}
=============================================================================
