----------------------------- MODULE AnnotTrace -----------------------------
(***************************************************************************)
(* Trace validation of annotations as they arrive in the returned graphs   *)
(* (C14, and the annotation faults of C20).                                *)
(* Record: [site |-> "graph" | "coarse" | "atom", entries, reuse,          *)
(*          obs |-> [outcome, copies <<attrs>>, coarse <<attrs>>]]         *)
(*   copies = the annotation-relevant attribute pairs of every copy of the *)
(*   annotated node/atom in the returned graph; coarse = same for the node *)
(*   of the returned coarse graph (site "graph" after a resolve).          *)
(***************************************************************************)
EXTENDS Annot, Json, IOUtils

Traces == JsonDeserialize(IOEnv.TRACE_FILE)
VARIABLES tid, done
vars == <<tid, done>>
T == Traces[tid]
ToSet(seq) == {seq[i] : i \in DOMAIN seq}

D == CASE T.site = "graph" -> GraphDialect
       [] T.site = "coarse" -> CoarseFragDialect
       [] OTHER -> AtomDialect
Full == IF T.site = "graph" THEN <<[k |-> "", v |-> "A", eq |-> 0]>> \o T.entries ELSE T.entries

(* the keys the comparison looks at: verbose reserved names and the free keys that were written *)
KeysOfInterest == ({D.rename[p] : p \in ParamSet(D)} \ {"fragname"})
                  \cup {T.entries[i].k : i \in {j \in DOMAIN T.entries : T.entries[j].k # "" /\ T.entries[j].k \notin ParamSet(D)}}
Restrict(pairs) == {<<p[1], p[2]>> : p \in {q \in ToSet(pairs) : q[1] \in KeysOfInterest}}
Expected == {a \in BindAttrs(Full, D) : a[1] \in KeysOfInterest}

Verdict ==
  LET dom == AnnInDomain(Full, D) IN
  IF ~dom THEN [dom |-> FALSE]
  ELSE
    LET err == BindError(Full, D)
        ok == T.obs.outcome = "ok"
    IN [ dom |-> TRUE, experr |-> err, site |-> T.site,
         C14_Accepted |-> (err = "") => ok,
         C14_Attrs |-> (err = "" /\ ok) => (Len(T.obs.copies) >= 1 /\ Restrict(T.obs.copies[1]) = Expected),
         C14_OnEveryCopy |-> (err = "" /\ ok) => (Len(T.obs.copies) = T.reuse /\
                                  \A i \in DOMAIN T.obs.copies : Restrict(T.obs.copies[i]) = Expected),
         C14_OnCoarseNode |-> (err = "" /\ ok /\ T.site = "graph") =>
                                  \A i \in DOMAIN T.obs.coarse : Restrict(T.obs.coarse[i]) = Expected,
         \* an annotation belongs to its own atom: a bracket atom WITHOUT annotation written later in the same fragment has the defaults
         C14_OnItsAtomOnly |-> (err = "" /\ ok /\ "plain" \in DOMAIN T.obs) =>
                                  \A i \in DOMAIN T.obs.plain :
                                     Restrict(T.obs.plain[i]) = {a \in BindAttrs(<<>>, D) : a[1] \in KeysOfInterest},
         C14_Defaults |-> (err = "" /\ ok) => \A p \in ParamSet(D) : D.default[p] # None =>
                                  \A i \in DOMAIN T.obs.copies : \E a \in Restrict(T.obs.copies[i]) : a[1] = D.rename[p],
         C20_Raises |-> (err # "") => T.obs.outcome = "exc:" \o err,
         C20_NoGraph |-> (err # "") => ~ok ]

Init == tid \in 1..Len(Traces) /\ done = FALSE
Next == /\ done = FALSE /\ done' = TRUE /\ tid' = tid
        /\ PrintT(<<"V", tid, ToJson(Verdict)>>)
Spec == Init /\ [][Next]_vars
=============================================================================
