---------------------------- MODULE PairingInd ----------------------------
(* Inductive core of the descriptor pairing (C03 "no written descriptor is used for more than one bond"):   *)
(* integer / finite-set encoding of ResolveDesign's Connect for Apalache.                                    *)
(* Instances 1..N; side[i] = coarse node of instance i; cls[i] = compatibility class (two instances are      *)
(* compatible iff they are on different nodes and have the same class - '$'/'!' labels; '<' '>' pairs are    *)
(* encoded as one class).  State: free set, made set of pairs.                                               *)
EXTENDS Integers, FiniteSets

N == 6
Inst == 1..N

VARIABLES
  \* @type: Set(Int);
  free,
  \* @type: Set(<<Int, Int>>);
  made,
  \* @type: Int -> Int;
  side,
  \* @type: Int -> Int;
  cls

Compat(l, r) == side[l] /= side[r] /\ cls[l] = cls[r]

Init == /\ free = Inst /\ made = {}
        /\ side \in [Inst -> 1..3] /\ cls \in [Inst -> 1..2]

Connect == \E l \in free : \E r \in free :
             /\ l /= r /\ Compat(l, r)
             /\ free' = free \ {l, r}
             /\ made' = made \union {<<l, r>>}
             /\ UNCHANGED <<side, cls>>
Next == Connect

TypeOK == /\ free \subseteq Inst /\ made \subseteq (Inst \X Inst)
          /\ side \in [Inst -> 1..3] /\ cls \in [Inst -> 1..2]
(* the inductive invariant: used and free instances are disjoint, every instance is used at most once, *)
(* every made pair is compatible and across two different nodes                                        *)
IndInv == /\ TypeOK
          /\ \A m \in made : m[1] \notin free /\ m[2] \notin free /\ m[1] /= m[2] /\ Compat(m[1], m[2])
          /\ \A m1 \in made : \A m2 \in made :
               m1 /= m2 => (m1[1] /= m2[1] /\ m1[1] /= m2[2] /\ m1[2] /= m2[1] /\ m1[2] /= m2[2])
IndInit == /\ free \in SUBSET Inst /\ made \in SUBSET (Inst \X Inst)
           /\ side \in [Inst -> 1..3] /\ cls \in [Inst -> 1..2]
           /\ IndInv
Once == \A m1 \in made : \A m2 \in made :
               m1 /= m2 => (m1[1] /= m2[1] /\ m1[1] /= m2[2] /\ m1[2] /= m2[1] /\ m1[2] /= m2[2])
=============================================================================
