-------------------------- MODULE ResolverAPITrace --------------------------
(***************************************************************************)
(* Trace validation of resolver call histories.                            *)
(* A trace = [levels |-> <<levels of input 1, ...>>,                       *)
(*            events |-> << [op, obj, inp, ctor, outcome,                  *)
(*                           yields |-> << <<level, digest>> ... >>,       *)
(*                           lib |-> digest of the shared library objects] >>, *)
(*            reference |-> << <<inp, level, digest>> ... >> ]             *)
(* digest = canonical dump (sorted node / edge attribute tuples) hashed.   *)
(* The events are replayed through the ResolverAPI actions (each must be   *)
(* enabled and yield the levels the model predicts); every digest must     *)
(* equal the reference digest of its (input, level) - which was obtained   *)
(* in a fresh process - and the library digest must never change.          *)
(***************************************************************************)
EXTENDS Naturals, Sequences, FiniteSets, TLC, Json, IOUtils

Traces == JsonDeserialize(IOEnv.TRACE_FILE)
VARIABLES tid, done
vars == <<tid, done>>
T == Traces[tid]
ToSet(s) == {s[i] : i \in DOMAIN s}

RECURSIVE LevelAfter(_, _)
(* level of object o after the first k events according to the model *)
LevelAfter(o, k) ==
  IF k = 0 THEN 0
  ELSE LET e == T.events[k] prev == LevelAfter(o, k - 1) IN
       IF e.obj # o THEN prev
       ELSE CASE e.op = "new" /\ e.ctor = "staged" -> 1
              [] e.op \in {"new", "new_bad"} -> 0
              [] e.op = "resolve" -> prev + 1
              [] e.op \in {"resolve_iter", "resolve_all"} -> T.levels[e.inp]
              [] OTHER -> prev

StartLevel(o, k) == IF \E j \in 1..k : T.events[j].obj = o /\ T.events[j].op = "new" /\ T.events[j].ctor = "staged" THEN 1 ELSE 0
(* What is promised exactly (exact = TRUE): constructors, stepping below the last level, and the two drivers on *)
(* an object that has not been stepped.  Everything else (a driver on an already stepped object, stepping past   *)
(* the last level) is outside what the interface promises: the code today yields the remaining levels and then  *)
(* fails with an IndexError; the specification only demands that nothing but genuine levels is yielded, in      *)
(* increasing order - any exception class, or a clean end, is accepted there.                                   *)
Expected(k) ==
  LET e == T.events[k] before == LevelAfter(e.obj, k - 1) top == T.levels[e.inp]
      fresh == before = StartLevel(e.obj, k) IN
  CASE e.op = "new" -> [enabled |-> TRUE, exact |-> TRUE, lv |-> <<>>, out |-> "ok"]
    [] e.op = "new_bad" -> [enabled |-> TRUE, exact |-> TRUE, lv |-> <<>>, out |-> "error"]
    [] e.op = "other" -> [enabled |-> TRUE, exact |-> TRUE, lv |-> <<>>, out |-> "ok"]
    [] e.op = "resolve" -> [enabled |-> TRUE, exact |-> before < top, lv |-> IF before < top THEN <<before + 1>> ELSE <<>>, out |-> "ok"]
    [] e.op = "resolve_iter" -> [enabled |-> before < top, exact |-> fresh, lv |-> [i \in 1..(top - before) |-> before + i], out |-> "ok"]
    [] e.op = "resolve_all" -> [enabled |-> before < top, exact |-> fresh, lv |-> <<top>>, out |-> "ok"]
    [] OTHER -> [enabled |-> TRUE, exact |-> FALSE, lv |-> <<>>, out |-> "error"]

Norm(o) == IF o = "ok" THEN "ok" ELSE "error"
Increasing(s) == \A i, j \in DOMAIN s : i < j => s[i] < s[j]

Ref(inp, lv) == {r[3] : r \in {x \in ToSet(T.reference) : x[1] = inp /\ x[2] = lv}}

EventOK(k) ==
  LET e == T.events[k] x == Expected(k) IN
  LET ys == [i \in DOMAIN e.yields |-> e.yields[i][1]] IN
  /\ x.enabled
  /\ IF x.exact THEN Norm(e.outcome) = x.out /\ ys = x.lv
     ELSE Increasing(ys) /\ \A i \in DOMAIN ys : ys[i] \in 1..T.levels[e.inp]
FunctionOK(k) ==
  LET e == T.events[k] IN
  \A i \in DOMAIN e.yields : Ref(e.inp, e.yields[i][1]) = {e.yields[i][2]}
LibOK(k) == T.events[k].lib = T.events[1].lib

Verdict ==
  [ dom |-> TRUE, n |-> Len(T.events),
    X_Behaviour |-> \A k \in DOMAIN T.events : EventOK(k),
    C12_Function |-> \A k \in DOMAIN T.events : FunctionOK(k),
    \* C06: the three drivers on a fresh object
    C06_Drivers |-> \A k \in DOMAIN T.events :
                      (T.events[k].op \in {"resolve", "resolve_iter", "resolve_all"} /\ Expected(k).out = "ok")
                         => (EventOK(k) /\ FunctionOK(k)),
    C12_LibraryUntouched |-> \A k \in DOMAIN T.events : LibOK(k),
    firstbad |-> IF \A k \in DOMAIN T.events : EventOK(k) /\ FunctionOK(k) /\ LibOK(k) THEN 0
                 ELSE CHOOSE k \in DOMAIN T.events : ~(EventOK(k) /\ FunctionOK(k) /\ LibOK(k)) /\
                        \A j \in 1..(k - 1) : EventOK(j) /\ FunctionOK(j) /\ LibOK(j) ]

Init == tid \in 1..Len(Traces) /\ done = FALSE
Next == /\ done = FALSE /\ done' = TRUE /\ tid' = tid
        /\ PrintT(<<"V", tid, ToJson(Verdict)>>)
Spec == Init /\ [][Next]_vars
=============================================================================
