-------------------------------- MODULE MolMC --------------------------------
(***************************************************************************)
(* Exhaustive universe of small molecules and their partitions (C01):      *)
(* every connected molecule of at most MaxAtoms heavy atoms over Elements  *)
(* with bond orders from Orders that fit the usual valences (Chem!Usual),  *)
(* and every partition of its atoms into connected blocks.  Each pair      *)
(* (molecule, partition) is emitted; the harness cuts it along the         *)
(* partition (all bonds between different blocks), renders it in several   *)
(* ways and resolves it; ResolveTrace checks the result against the        *)
(* molecule (C01_Original) with hydrogens from Chem!Need.                  *)
(***************************************************************************)
EXTENDS Chem, Sequences, Json

CONSTANTS MaxAtoms, Elements, Orders

VARIABLES n, els, bonds, block
vars == <<n, els, bonds, block>>

Atoms(k) == 1..k
PairsOf(k) == {<<a, b>> \in Atoms(k) \X Atoms(k) : a < b}
Adj(k, bs, u) == {e[2] : e \in {f \in bs : f[1] = u}} \cup {e[1] : e \in {f \in bs : f[2] = u}}
RECURSIVE Reach(_, _, _, _)
Reach(k, bs, S, i) == IF i = 0 THEN S ELSE Reach(k, bs, S \cup UNION {Adj(k, bs, u) : u \in S}, i - 1)
ConnectedSet(k, bs, S) == S = {} \/ LET s == CHOOSE x \in S : TRUE
                                        inner == {e \in bs : e[1] \in S /\ e[2] \in S}
                                    IN Reach(k, inner, {s}, k) = S
Valence(bs, a) == LET es == {e \in bs : a \in {e[1], e[2]}} IN
                  LET F[X \in SUBSET es] == IF X = {} THEN 0 ELSE LET x == CHOOSE y \in X : TRUE IN x[3] + F[X \ {x}]
                  IN F[es]
(* partitions as restricted growth strings: block[1] = 1, block[i] <= 1 + max(block[1..i-1]) *)
IsRGS(k, b) == b[1] = 1 /\ \A i \in 2..k : b[i] <= 1 + (CHOOSE m \in 1..k : (\E j \in 1..(i - 1) : b[j] = m) /\ \A j \in 1..(i - 1) : b[j] <= m)

Init ==
  /\ n \in 1..MaxAtoms
  /\ els \in [Atoms(n) -> Elements]
  /\ bonds \in {S \in SUBSET {<<p[1], p[2], o>> : p \in PairsOf(n), o \in Orders} :
                  \A e, f \in S : (e[1] = f[1] /\ e[2] = f[2]) => e = f}
  /\ ConnectedSet(n, bonds, Atoms(n))
  /\ \A a \in Atoms(n) : Valence(bonds, a) <= MaxOf(Usual(els[a], 0))
  /\ block \in [Atoms(n) -> 1..n]
  /\ IsRGS(n, block)
  /\ \A b \in 1..n : ConnectedSet(n, bonds, {a \in Atoms(n) : block[a] = b})
Next == UNCHANGED vars
Spec == Init /\ [][Next]_vars

(* sanity of the universe *)
SimpleAndFeasible == /\ \A e \in bonds : e[1] < e[2] /\ e[2] <= n
                     /\ \A a \in Atoms(n) : Fits(els[a], 0, 2 * Valence(bonds, a))
Emit == PrintT(<<"G", n, ToJson([n |-> n, els |-> els, bonds |-> bonds, block |-> block])>>)

ElsQ == {"C", "N", "O", "Cl"}
ElsT == {"C", "O"}
Ord123 == {1, 2, 3}
Ord12 == {1, 2}
=============================================================================
