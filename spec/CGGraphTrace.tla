---------------------------- MODULE CGGraphTrace ----------------------------
(***************************************************************************)
(* Trace validation of read_cgsmiles against CGGraph.                      *)
(*                                                                         *)
(* A record (one public call, logged at its return / exception):           *)
(*   [ mode |-> "read" | "mult",                                           *)
(*     toks |-> token string that was rendered and read,                   *)
(*     obs  |-> [outcome |-> "ok" | "exc:<Type>",                          *)
(*               nodes |-> <<[name, attrs <<k,v>>...]>>, edges |-> <<<<a,b,o>>>>], *)
(*     -- mode "mult" only (C05): the longhand the harness rendered and read *)
(*     long |-> tokens, obsL |-> observation, wit |-> node map short->long ]    *)
(* The verdict is total: a vector of named clauses per record.             *)
(***************************************************************************)
EXTENDS CGGraph, Json, IOUtils

Traces == JsonDeserialize(IOEnv.TRACE_FILE)

VARIABLES tid, done
vars == <<tid, done>>

T == Traces[tid]

ToSet(seq) == {seq[i] : i \in DOMAIN seq}

(* ------------------------- observation helpers -------------------------- *)
ObsEdges(o) == {<<e[1], e[2], e[3]>> : e \in ToSet(o.edges)}
ObsNames(o) == [i \in DOMAIN o.nodes |-> o.nodes[i].name]
ObsAttrs(o) == [i \in DOMAIN o.nodes |-> {<<p[1], p[2]>> : p \in ToSet(o.nodes[i].attrs)}]

Matches(o, d) ==
  [ numbering |-> o.keys = [i \in DOMAIN o.nodes |-> i - 1],
    names |-> ObsNames(o) = NodeNames(d),
    attrs |-> ObsAttrs(o) = NodeAttrs(d),
    edges |-> {<<e[1], e[2]>> : e \in ObsEdges(o)} = {<<e[1], e[2]>> : e \in EdgeSet(d)},
    orders |-> ObsEdges(o) = EdgeSet(d) ]
AllOf(m) == m.numbering /\ m.names /\ m.attrs /\ m.edges /\ m.orders

(* expected outcome of reading ts *)
Expected(ts) ==
  LET d == DenoteM(ts) IN
  IF AnnErr(d) # "" THEN "exc:" \o AnnErr(d)
  ELSE Outcome(d)

(* ------------------------------ verdicts -------------------------------- *)
ReadVerdict ==
  LET ts == T.toks
      dom == InGrammarM(ts) /\ AnnInDom(ts)
  IN IF ~dom THEN [dom |-> FALSE]
     ELSE
       LET d == DenoteM(ts)
           exp == Expected(ts)
           ok == T.obs.outcome = "ok"
           m == IF ok THEN Matches(T.obs, d) ELSE [numbering |-> FALSE, names |-> FALSE, attrs |-> FALSE, edges |-> FALSE, orders |-> FALSE]
           \* does the named deviation explain the WHOLE observation (graph, or the error it leads to)?
           dd == DenoteDev(Expand(ts))
           dev == IF ~HasDoubleClose(Expand(ts)) THEN FALSE
                  ELSE IF ok THEN Outcome(dd) = "ok" /\ AllOf(Matches(T.obs, dd))
                  ELSE Outcome(dd) # "ok" /\ T.obs.outcome = Outcome(dd)
       IN [ dom |-> TRUE,
            expected |-> exp,
            fault |-> Fault(d),
            annerr |-> AnnErr(d),
            hasM |-> HasM(ts),
            dblclose |-> HasDoubleClose(Expand(ts)),
            \* C04: a grammatical string is read and gives the denoted graph
            C04_Accepted |-> (exp = "ok") => ok,
            C04_Numbering |-> (exp = "ok") => m.numbering,
            C04_Names  |-> (exp = "ok") => m.names,
            C04_Attrs  |-> (exp = "ok") => m.attrs,
            C04_Edges  |-> (exp = "ok") => m.edges,
            C04_Orders |-> (exp = "ok") => m.orders,
            \* C20: a faulty string raises the documented error and yields no graph
            C20_Raises |-> (exp # "ok") => (T.obs.outcome = exp),
            C20_NoGraph |-> (exp # "ok") => ~ok,
            \* named deviation (known finding): explains the whole observation?
            dev_CloseBranch_PopsOnce |-> dev ]

(* isomorphism witness: w[i] (1-based positions) maps node i of the short read to a node of the long read *)
WitnessOK(oS, oL, w) ==
  /\ Len(w) = Len(oS.nodes) /\ Len(oS.nodes) = Len(oL.nodes)
  /\ \A i \in DOMAIN w : w[i] \in DOMAIN oL.nodes
  /\ \A i, j \in DOMAIN w : i # j => w[i] # w[j]
  /\ \A i \in DOMAIN w : /\ oS.nodes[i].name = oL.nodes[w[i]].name
                         /\ ToSet(oS.nodes[i].attrs) = ToSet(oL.nodes[w[i]].attrs)
  /\ {<<Pair(w[e[1] + 1] - 1, w[e[2] + 1] - 1)[1], Pair(w[e[1] + 1] - 1, w[e[2] + 1] - 1)[2], e[3]>> : e \in ObsEdges(oS)}
       = ObsEdges(oL)

MultVerdict ==
  LET ts == T.toks
      dom == InGrammarM(ts) /\ AnnInDom(ts) /\ HasM(ts)
  IN IF ~dom THEN [dom |-> FALSE]
     ELSE
       LET longOK == T.long = Expand(ts)
           okS == T.obs.outcome = "ok"
           okL == T.obsL.outcome = "ok"
           d == DenoteM(ts)
           fault == Fault(d) # "" \/ AnnErr(d) # ""
       IN [ dom |-> TRUE,
            fault |-> fault,
            nodeOnly |-> NodeOnlyM(ts),
            dblclose |-> HasDoubleClose(Expand(ts)),
            outS |-> T.obs.outcome, outL |-> T.obsL.outcome,
            \* machinery self-check: the harness rendered exactly the spec's longhand
            X_LongIsExpand |-> longOK,
            \* C05: same outcome; isomorphic graphs; identical numbering for node multipliers
            C05_SameOutcome |-> (okL <=> okS) /\ (~okL => T.obs.outcome = T.obsL.outcome),
            C05_Iso |-> (okS /\ okL) => WitnessOK(T.obs, T.obsL, T.wit),
            C05_SameNumbering |-> (okS /\ okL /\ NodeOnlyM(ts)) =>
                                     (T.obs.keys = T.obsL.keys /\ ObsNames(T.obs) = ObsNames(T.obsL) /\ ObsAttrs(T.obs) = ObsAttrs(T.obsL)
                                      /\ ObsEdges(T.obs) = ObsEdges(T.obsL)),
            \* information: does the shorthand read equal the spec's own denotation
            X_ShortIsDenoteM |-> (okS /\ ~fault) => AllOf(Matches(T.obs, d)) ]

(* oracle mode: the specification's longhand of a token string *)
ExpandVerdict ==
  LET ts == T.toks
      dom == InGrammarM(ts) /\ AnnInDom(ts)
  IN IF ~dom THEN [dom |-> FALSE] ELSE [dom |-> TRUE, long |-> Expand(ts)]

(* C07: the writer's output for graph G = [names (node i at position i + 1), edges <<a, b, o>>];        *)
(* wit[i] = 1-based position in G.names of the i-th node of the graph read back                         *)
GEdges == {<<e[1], e[2], e[3]>> : e \in ToSet(T.G.edges)}
ReadBackOK ==
  LET o == T.obs w == T.wit IN
  /\ Len(w) = Len(o.nodes) /\ Len(o.nodes) = Len(T.G.names)
  /\ \A i \in DOMAIN w : w[i] \in DOMAIN T.G.names
  /\ \A i, j \in DOMAIN w : i # j => w[i] # w[j]
  /\ \A i \in DOMAIN w : o.nodes[i].name = T.G.names[w[i]]
  /\ {<<Pair(w[e[1] + 1] - 1, w[e[2] + 1] - 1)[1], Pair(w[e[1] + 1] - 1, w[e[2] + 1] - 1)[2], e[3]>> : e \in ObsEdges(o)} = GEdges
UniqueNames == \A i, j \in DOMAIN T.G.names : i # j => T.G.names[i] # T.G.names[j]
PosOfName(nm) == CHOOSE i \in DOMAIN T.G.names : T.G.names[i] = nm
DenoteIsG ==
  LET d == Denote(T.toks) IN
  /\ Fault(d) = ""
  /\ Len(d.nodes) = Len(T.G.names)
  /\ \A i \in DOMAIN d.nodes : d.nodes[i].name \in ToSet(T.G.names)
  /\ {<<Pair(PosOfName(d.nodes[e[1] + 1].name) - 1, PosOfName(d.nodes[e[2] + 1].name) - 1)[1],
        Pair(PosOfName(d.nodes[e[1] + 1].name) - 1, PosOfName(d.nodes[e[2] + 1].name) - 1)[2], e[3]>> : e \in d.edges} = GEdges

WriteVerdict ==
  LET ok == T.obs.outcome = "ok"
      gram == T.tokenizable /\ InGrammar(T.toks)
  IN [ dom |-> TRUE,
       written |-> T.written,
       \* the text is a string of the documented grammar and the reader accepts it
       C07_InGrammar |-> T.written => gram,
       C07_ReaderAccepts |-> T.written => ok,
       \* it reads back to the original graph (names and orders), under the witness
       C07_ReadBack |-> (T.written /\ ok) => ReadBackOK,
       \* and it denotes the original graph in the specification (unique names: no witness needed)
       C07_DenoteIsG |-> (T.written /\ gram /\ UniqueNames) => DenoteIsG,
       C07_Written |-> T.written ]

Verdict == CASE T.mode = "mult" -> MultVerdict
             [] T.mode = "write" -> WriteVerdict
             [] T.mode = "expand" -> ExpandVerdict
             [] OTHER -> ReadVerdict

Init == tid \in 1..Len(Traces) /\ done = FALSE
Next == /\ done = FALSE /\ done' = TRUE /\ tid' = tid
        /\ PrintT(<<"V", tid, ToJson(Verdict)>>)
Spec == Init /\ [][Next]_vars
=============================================================================
