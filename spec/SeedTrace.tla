------------------------------ MODULE SeedTrace ------------------------------
(***************************************************************************)
(* C17 (seed): construct-and-sample histories.  A trace is a sequence of   *)
(* events [key, digest, proc] where key identifies (configuration, seed,   *)
(* target weight); constructing a sampler with a seed and sampling must    *)
(* give the same molecule every time - within one process whatever was     *)
(* sampled before, and across processes / hash seeds.                      *)
(***************************************************************************)
EXTENDS Naturals, Sequences, FiniteSets, TLC, Json, IOUtils
Traces == JsonDeserialize(IOEnv.TRACE_FILE)
VARIABLES tid, done
vars == <<tid, done>>
T == Traces[tid]
ToSet(s) == {s[i] : i \in DOMAIN s}
Keys == {e.key : e \in ToSet(T.events)}
Digests(k) == {e.digest : e \in {x \in ToSet(T.events) : x.key = k}}
Verdict == [ dom |-> TRUE, keys |-> Cardinality(Keys), events |-> Len(T.events),
             C17_Seed |-> \A k \in Keys : Cardinality(Digests(k)) = 1,
             badkeys |-> {k \in Keys : Cardinality(Digests(k)) # 1} ]
Init == tid \in 1..Len(Traces) /\ done = FALSE
Next == /\ done = FALSE /\ done' = TRUE /\ tid' = tid
        /\ PrintT(<<"V", tid, ToJson(Verdict)>>)
Spec == Init /\ [][Next]_vars
=============================================================================
