------------------------------- MODULE Sampler -------------------------------
(***************************************************************************)
(* The random polymer sampler (sample.py: MoleculeSampler.sample) as a     *)
(* growth process.                                                         *)
(*                                                                         *)
(* Configuration K:                                                        *)
(*   frags    : Seq([name, natoms, desc : Seq(Seq(<<kind,label,order>>)), mass]) *)
(*   react    : {<<d, positive>>}   polymer reactivities (empty = all equal) *)
(*   cond     : {<<d, p, positive>>} conditional (fragment) reactivities   *)
(*   terminal : {d}                 terminal descriptors                   *)
(*   target   : Nat                 target weight (milli-dalton)           *)
(* State S:                                                                *)
(*   copies : Seq(fragment index)   copy c is the c-th fragment added      *)
(*   open   : <<copy, atom>> -> Seq(descriptor)   descriptors still offered *)
(*   links  : Seq([site, partner, d, p])  one per added fragment           *)
(*   weight : Nat                   summed mass of the fragments ADDED     *)
(*                                  during growth (the start fragment is   *)
(*                                  not counted, as the property says)     *)
(* Descriptors are triples <<kind, label, order>>.                         *)
(***************************************************************************)
EXTENDS Naturals, Integers, Sequences, FiniteSets, TLC

SToSet(s) == {s[i] : i \in DOMAIN s}

(* ------------------------------- the library ----------------------------- *)
LibDescs(K) == UNION {UNION {SToSet(K.frags[f].desc[a]) : a \in DOMAIN K.frags[f].desc} : f \in DOMAIN K.frags}

(* complementary descriptors of d among the library's descriptors:            *)
(* '$' pairs with every '$' of the same order (labels only steer probabilities) *)
(* '>' pairs with '<' of identical label and order (and vice versa)           *)
Compl(K, d) ==
  CASE d[1] = "$" -> {p \in LibDescs(K) : p[1] = "$" /\ p[3] = d[3]}
    [] d[1] = ">" -> {p \in LibDescs(K) : p[1] = "<" /\ p[2] = d[2] /\ p[3] = d[3]}
    [] d[1] = "<" -> {p \in LibDescs(K) : p[1] = ">" /\ p[2] = d[2] /\ p[3] = d[3]}
    [] OTHER -> {p \in LibDescs(K) : p = d}

ReactPos(K, d) == IF K.react = {} THEN TRUE ELSE <<d, TRUE>> \in K.react
HasRow(K, d)   == \E c \in K.cond : c[1] = d
CondPos(K, d, p) == IF ~HasRow(K, d) THEN TRUE ELSE <<d, p, TRUE>> \in K.cond

(* ---------------------------------- state -------------------------------- *)
InitS == [copies |-> <<>>, open |-> <<>>, links |-> <<>>, weight |-> 0]

FragOpen(K, f, c) == [x \in {<<c, a>> : a \in DOMAIN K.frags[f].desc} |-> K.frags[f].desc[x[2]]]

Start(K, S, f) == [S EXCEPT !.copies = <<f>>, !.open = FragOpen(K, f, 1)]

RECURSIVE RemoveOne(_, _)
RemoveOne(seq, x) == IF seq = <<>> THEN <<>>
                     ELSE IF Head(seq) = x THEN Tail(seq) ELSE <<Head(seq)>> \o RemoveOne(Tail(seq), x)
Withdraw(K, seq) == SelectSeq(seq, LAMBDA y : y \notin K.terminal)

AllOpen(S) == UNION {SToSet(S.open[x]) : x \in DOMAIN S.open}
OpenSites(S, d) == {x \in DOMAIN S.open : d \in SToSet(S.open[x])}

(* enabling condition of one growth step *)
GrowEnabled(K, S, site, d, p, f, t) ==
  /\ S.weight < K.target
  /\ site \in DOMAIN S.open /\ d \in SToSet(S.open[site])
  /\ ReactPos(K, d)
  /\ p \in Compl(K, d)
  /\ CondPos(K, d, p)
  /\ f \in DOMAIN K.frags /\ t \in DOMAIN K.frags[f].desc /\ p \in SToSet(K.frags[f].desc[t])

Grow(K, S, site, d, p, f, t) ==
  LET c == Len(S.copies) + 1
      newopen == FragOpen(K, f, c)
      merged == [x \in DOMAIN S.open \cup DOMAIN newopen |->
                   IF x \in DOMAIN newopen
                   THEN (IF x = <<c, t>> THEN RemoveOne(newopen[x], p) ELSE newopen[x])
                   ELSE IF x = site
                        THEN (IF p \in K.terminal THEN <<>> ELSE Withdraw(K, RemoveOne(S.open[x], d)))
                        ELSE S.open[x]]
  IN [S EXCEPT !.copies = Append(@, f), !.open = merged,
               !.links = Append(@, [site |-> site, partner |-> <<c, t>>, d |-> d, p |-> p]),
               !.weight = @ + K.frags[f].mass]

(* the sampler returns when the weight has reached the target *)
Finished(K, S) == Len(S.copies) >= 1 /\ S.weight >= K.target
(* a dead end: growth must go on but nothing is enabled (the code raises) *)
SomeEnabled(K, S) ==
  \E site \in DOMAIN S.open : \E d \in SToSet(S.open[site]) :
     ReactPos(K, d) /\ \E p \in Compl(K, d) : CondPos(K, d, p)

(* -------------------------------- invariants ----------------------------- *)
(* C16: a tree of copies, one bond per added copy, complementary descriptors of equal order, used once *)
Tree(S) == /\ Len(S.links) = Len(S.copies) - 1 \/ S.copies = <<>>
           /\ \A i \in DOMAIN S.links : S.links[i].partner[1] = i + 1 /\ S.links[i].site[1] <= i
Complementary(K, S) == \A i \in DOMAIN S.links : LET l == S.links[i] IN
   /\ l.d[3] = l.p[3]
   /\ CASE l.d[1] = "$" -> l.p[1] = "$"
        [] l.d[1] = ">" -> l.p[1] = "<" /\ l.d[2] = l.p[2]
        [] l.d[1] = "<" -> l.p[1] = ">" /\ l.d[2] = l.p[2]
        [] OTHER -> l.p = l.d
RECURSIVE CountS(_, _)
CountS(seq, x) == IF seq = <<>> THEN 0 ELSE (IF Head(seq) = x THEN 1 ELSE 0) + CountS(Tail(seq), x)
UsedAt(S, x, d) == Cardinality({i \in DOMAIN S.links : (S.links[i].site = x /\ S.links[i].d = d) \/ (S.links[i].partner = x /\ S.links[i].p = d)})
Once(K, S) == \A x \in DOMAIN S.open : \A d \in SToSet(K.frags[S.copies[x[1]]].desc[x[2]]) :
   UsedAt(S, x, d) + CountS(S.open[x], d) <= CountS(K.frags[S.copies[x[1]]].desc[x[2]], d)
(* C17 *)
NeverZero(K, S) == \A i \in DOMAIN S.links : ReactPos(K, S.links[i].d) /\ CondPos(K, S.links[i].d, S.links[i].p)
TerminalClosesAtom(K, S) ==
  \A i \in DOMAIN S.links : S.links[i].p \in K.terminal => S.open[S.links[i].site] = <<>>
TerminalsWithdrawn(K, S) ==
  \A i \in DOMAIN S.links : S.links[i].p \notin K.terminal =>
     \A y \in SToSet(S.open[S.links[i].site]) : y \notin K.terminal
StopRule(K, S) == Finished(K, S) /\ Len(S.copies) > 1 =>
   S.weight - K.frags[S.copies[Len(S.copies)]].mass < K.target
=============================================================================
