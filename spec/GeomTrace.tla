------------------------------ MODULE GeomTrace ------------------------------
(***************************************************************************)
(* C18 (RDKit bridge, forward mapping) and C19 (2D layout): predicates     *)
(* over integer-scaled measurements.  TLA+ cannot decide floating-point    *)
(* geometry; what it contributes here is the index-mapping model (which    *)
(* RDKit atom a graph node becomes, whose coordinates it must receive),    *)
(* the bead-coefficient algebra over integers and the enumerated inputs'   *)
(* predicates.  The numbers come from the harness - said plainly.          *)
(*                                                                         *)
(* modes                                                                   *)
(*  "roundtrip": before / after <<el, chg, nH>> per node in key order,     *)
(*               edges <<a, b, order2>>, conformer flag                    *)
(*  "embed":     nodes <<key, iteration position, conformer atom whose     *)
(*               coordinates the node received (0 = none)>>, bonded        *)
(*               distances in 10^-3 Angstrom                               *)
(*  "fmap":      beads <<bead, members <<atom, weight*1000>>>>, coefficients *)
(*               <<bead, atom, num, den>> measured by probing with unit    *)
(*               positions (forward_map_molecule is linear)                *)
(*  "layout":    n nodes, positions present/finite flags, bonded distances *)
(*               and mean bond length in 10^-6 of the requested bond length *)
(***************************************************************************)
EXTENDS Naturals, Integers, Sequences, FiniteSets, TLC, Json, IOUtils
Traces == JsonDeserialize(IOEnv.TRACE_FILE)
VARIABLES tid, done
vars == <<tid, done>>
T == Traces[tid]
ToSet(s) == {s[i] : i \in DOMAIN s}

(* --- the index model of the bridge: node k at iteration position p becomes RDKit atom p - 1 --- *)
RdIdx(p) == p - 1

RoundTrip ==
  [ dom |-> TRUE,
    C18_Converts |-> T.outcome = "ok",
    C18_RoundTripChem |-> T.outcome = "ok" =>
        /\ T.before.nodes = T.after.nodes
        /\ ToSet(T.before.edges) = ToSet(T.after.edges) ]

Embed ==
  [ dom |-> TRUE,
    C18_Embeds |-> T.outcome = "ok",
    \* every node stores the coordinates of the RDKit atom that was built from it
    C18_OwnPosition |-> T.outcome = "ok" => \A n \in ToSet(T.nodes) : n[3] = RdIdx(n[2]) + 1,
    \* cross-check that needs no index reasoning: bonded atoms lie at bonding distance
    C18_BondedClose |-> T.outcome = "ok" => \A d \in ToSet(T.bond_mA) : d > 300 /\ d < 2300 ]

Sum(seq) == LET F[i \in 0..Len(seq)] == IF i = 0 THEN 0 ELSE F[i - 1] + seq[i] IN F[Len(seq)]
Fmap ==
  [ dom |-> TRUE,
    C18_Maps |-> T.outcome = "ok",
    C18_BeadIsNormalisedAverage |-> T.outcome = "ok" =>
       \A b \in ToSet(T.beads) :
          LET members == b[2]
              tot == Sum([i \in DOMAIN members |-> members[i][2]])
          IN \A c \in {x \in ToSet(T.coeff) : x[1] = b[1]} :
               LET w == IF \E m \in ToSet(members) : m[1] = c[2]
                        THEN (CHOOSE m \in ToSet(members) : m[1] = c[2])[2] ELSE 0
               IN c[3] * tot = c[4] * w,        \* c = num/den must equal w / tot
    C18_TranslationCovariant |-> T.outcome = "ok" => \A d \in ToSet(T.shift_err_ppm) : d <= 10 ]

Layout ==
  [ dom |-> TRUE,
    C19_Returns |-> T.outcome = "ok",
    C19_AllNodes |-> T.outcome = "ok" => T.npos = T.n /\ T.keys_match,
    C19_Finite |-> T.outcome = "ok" => T.finite,
    C19_NoCoincidentBond |-> T.outcome = "ok" => \A d \in ToSet(T.bond_ppm) : d > 0,
    C19_MeanBond |-> T.outcome = "ok" => (T.mean_ppm >= 999999 /\ T.mean_ppm <= 1000001),
    (* align_with given (align_ppm >= 0): the longest extent lies along the axis; |sin| of the angle in ppm *)
    X_Aligned |-> T.outcome = "ok" => T.align_ppm <= 1000 ]

Verdict == CASE T.mode = "roundtrip" -> RoundTrip
             [] T.mode = "embed" -> Embed
             [] T.mode = "fmap" -> Fmap
             [] OTHER -> Layout
Init == tid \in 1..Len(Traces) /\ done = FALSE
Next == /\ done = FALSE /\ done' = TRUE /\ tid' = tid
        /\ PrintT(<<"V", tid, ToJson(Verdict)>>)
Spec == Init /\ [][Next]_vars
=============================================================================
