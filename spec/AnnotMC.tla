------------------------------ MODULE AnnotMC ------------------------------
(***************************************************************************)
(* Exhaustive model of annotation binding: every sequence of at most       *)
(* MaxEntries entries over a key / spelling universe, for a dialect.       *)
(* Design theorems: positional and keyword forms mean the same, keyword    *)
(* order does not matter, defaults are always present, reserved numeric    *)
(* keys are canonical numbers, free keys are kept verbatim, and the three  *)
(* error classes are disjoint from successful bindings.                    *)
(***************************************************************************)
EXTENDS Annot, Json

CONSTANTS MaxEntries, Keys, Values, DialectName, FaultEntries

VARIABLES entries
vars == <<entries>>

D == CASE DialectName = "graph" -> GraphDialect
       [] DialectName = "coarse" -> CoarseFragDialect
       [] OTHER -> AtomDialect
(* for the graph dialect the node name is the first positional entry *)
Full(es) == IF DialectName = "graph" THEN <<[k |-> "", v |-> "A", eq |-> 0]>> \o es ELSE es

EntryUniverse == {[k |-> k, v |-> v, eq |-> IF k = "" THEN 0 ELSE 1] : k \in Keys, v \in Values} \cup FaultEntries

Init == entries = <<>>
Next == \E e \in EntryUniverse :
          /\ Len(entries) < MaxEntries
          /\ AnnInDomain(Full(Append(entries, e)), D)
          \* positional entries come first in sensible writing, but the code accepts any order: keep all
          /\ entries' = Append(entries, e)
Spec == Init /\ [][Next]_vars

B == Bind(Full(entries), D)

(* the keyword form of an annotation: the i-th positional becomes param[i]=value *)
Keywordised(es) ==
  LET pos == Positionals(es) IN
  [i \in DOMAIN es |->
     IF es[i].k # "" THEN es[i]
     ELSE LET j == Cardinality({m \in 1..i : es[m].k = ""}) IN
          IF j <= Len(D.params) THEN [k |-> D.params[j], v |-> es[i].v, eq |-> 1] ELSE es[i]]

PositionalEqKeyword ==
  (B.err = "" /\ ~Collides(Full(entries), D)) =>
     (Len(Positionals(Full(entries))) <= Len(D.params) =>
        Bind(Keywordised(Full(entries)), D) = B)

Reverse(s) == [i \in DOMAIN s |-> s[Len(s) + 1 - i]]
KeywordOrderIrrelevant ==
  (Positionals(entries) = <<>>) => Bind(Full(Reverse(entries)), D) = B

DefaultsPresent == B.err = "" =>
  \A p \in ParamSet(D) : D.default[p] # None => \E a \in B.attrs : a[1] = D.rename[p]

NumericCanonical == B.err = "" =>
  \A p \in D.numeric : \A a \in B.attrs : a[1] = D.rename[p] => a[2] \in {Canon[s] : s \in DOMAIN Canon}

FreeVerbatim == B.err = "" =>
  \A i \in DOMAIN entries : (entries[i].k # "" /\ entries[i].k \notin ParamSet(D)) =>
     <<entries[i].k, entries[i].v>> \in B.attrs

OneValuePerKey == B.err = "" => \A a, b \in B.attrs : a[1] = b[1] => a = b

Emit == PrintT(<<"G", Len(entries), ToJson([entries |-> entries, dialect |-> DialectName])>>)

(* ----------------------------- universes -------------------------------- *)
KeysGraph == {"", "q", "w", "foo", "_foo"}
KeysAtom  == {"", "w", "x", "foo", "_foo"}
(* quick: the free key starts with an underscore (a name that private attributes of other libraries use as well) *)
KeysGraphQ == {"", "q", "w", "_foo"}
KeysAtomQ  == {"", "w", "x", "_foo"}
ValsQ == {"1", "+1", "-0.25", "1e-1", "0", "abc", "R"}
ValsT == {"1", "+1", "-0.25", "1e-1", ".5", "0", "abc", "R", "S", "2.5e-1"}
Faults == {[k |-> "w", v |-> "ab=c", eq |-> 2], [k |-> "foo", v |-> "a=b", eq |-> 2],
           \* two '=' with an empty side: w==1, w=1=
           [k |-> "w", v |-> "=1", eq |-> 2], [k |-> "w", v |-> "1=", eq |-> 2]}
FaultsQ == {[k |-> "w", v |-> "ab=c", eq |-> 2], [k |-> "w", v |-> "=1", eq |-> 2], [k |-> "foo", v |-> "1=", eq |-> 2]}
=============================================================================
