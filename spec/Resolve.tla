------------------------------- MODULE Resolve -------------------------------
(***************************************************************************)
(* One resolution step of the MoleculeResolver (resolve.py) as predicates  *)
(* over a configuration C and an outcome O.                                *)
(*                                                                         *)
(* C = [ names  : Seq(name)            coarse node k has id k - 1          *)
(*       edges  : {<<a, b, order>>}    base-graph edges (ids, a < b)       *)
(*       lib    : name -> template     [atoms, bonds, desc]                *)
(*       legacy, allAtom ]                                                 *)
(* template atoms : Seq([el, v, ar, ch, hc, a])   (token of the atom)      *)
(*          bonds : {<<i, j, order2>>}  (0-based template atom ids)        *)
(*          desc  : Seq(Seq(<<kind, label, order>>))                       *)
(*                                                                         *)
(* O = [ fine   : [nodes : Seq(node), edges : Seq(<<a, b, order2, bonding>>)], *)
(*       coarse : [nodes : Seq([id, name, graph, ...]), edges] ]           *)
(* node = [id, el, name, chg, arom, fragid, fragname, map, desc, attrs, isH, ...] *)
(*                                                                         *)
(* The same predicates are INVARIANTs of the design model ResolveMC (O is  *)
(* projected from the model's state) and clauses of the trace spec         *)
(* ResolveTrace (O is projected from the real resolver's return values).   *)
(***************************************************************************)
EXTENDS Naturals, Integers, Sequences, FiniteSets, TLC, Chem, Annot

ToSet(seq) == {seq[i] : i \in DOMAIN seq}
RPair(a, b) == IF a < b THEN <<a, b>> ELSE <<b, a>>

(* ------------------------------ descriptors ----------------------------- *)
DStr(d) == d[1] \o d[2] \o ToString(d[3])

Compatible(d, e, legacy) ==
  IF legacy
  THEN \/ (d[1] = e[1] /\ d[1] \in {"$", "!"} /\ d[2] = e[2] /\ d[3] = e[3])
       \/ ({d[1], e[1]} = {"<", ">"} /\ d[2] = e[2] /\ d[3] = e[3])
  ELSE \/ (d[1] = e[1] /\ d[1] \in {"$", "!"})
       \/ {d[1], e[1]} = {"<", ">"}

(* ------------------------------ configuration --------------------------- *)
CoarseIds(C) == 0..(Len(C.names) - 1)
NameOf(C, k) == C.names[k + 1]
IsReal(C, k) == NameOf(C, k) \in DOMAIN C.lib
Tpl(C, k)    == C.lib[NameOf(C, k)]
NAtoms(t)    == Len(t.atoms)
EdgesAt(C, k) == {e \in C.edges : e[1] = k \/ e[2] = k}
BaseOrder(C, a, b) == IF \E e \in C.edges : e[1] = RPair(a, b)[1] /\ e[2] = RPair(a, b)[2]
                      THEN (CHOOSE e \in C.edges : e[1] = RPair(a, b)[1] /\ e[2] = RPair(a, b)[2])[3]
                      ELSE -1
(* a node without a fragment is virtual iff all its edges have order 0; otherwise the input is an error *)
MissingFragment(C) == \E k \in CoarseIds(C) : ~IsReal(C, k) /\ \E e \in EdgesAt(C, k) : e[3] # 0
ExpectedOutcome(C) == IF MissingFragment(C) THEN "exc:SyntaxError" ELSE "ok"

(* ------------------------------- outcome -------------------------------- *)
FNodes(O) == ToSet(O.fine.nodes)
FEdges(O) == ToSet(O.fine.edges)
FIds(O)   == {n.id : n \in FNodes(O)}
NodeOf(O, id) == CHOOSE n \in FNodes(O) : n.id = id
FragOf(n) == ToSet(n.fragid)
Mapped(n) == n.map # <<>>
(* membership triples <<coarse node, fragment name, template atom>>: fragid and mapping are parallel lists *)
Members(n) == IF Len(n.map) = Len(n.fragid)
              THEN {<<n.fragid[p], n.map[p][1], n.map[p][2]>> : p \in DOMAIN n.map}
              ELSE {}
Inst(C, O, k, i) == {n \in FNodes(O) : <<k, NameOf(C, k), i>> \in Members(n)}
TheInst(C, O, k, i) == CHOOSE n \in Inst(C, O, k, i) : TRUE
EdgeBetween(O, a, b) == {e \in FEdges(O) : (e[1] = a /\ e[2] = b) \/ (e[1] = b /\ e[2] = a)}
NbrIds(O, id) == {e[2] : e \in {f \in FEdges(O) : f[1] = id}} \cup {e[1] : e \in {f \in FEdges(O) : f[2] = id}}
IsCompletedH(n) == n.isH /\ ~Mapped(n)
(* an inter-fragment bond joins two atoms that share no coarse node *)
Inter(O, e) == FragOf(NodeOf(O, e[1])) \cap FragOf(NodeOf(O, e[2])) = {}
                 /\ ~IsCompletedH(NodeOf(O, e[1])) /\ ~IsCompletedH(NodeOf(O, e[2]))
InterEdges(O) == {e \in FEdges(O) : Inter(O, e)}
(* template descriptors of a fine atom: those of all template atoms it instantiates *)
CarriedBy(C, n) == UNION { ToSet(C.lib[m[2]].desc[m[3] + 1]) : m \in {mm \in Members(n) : mm[2] \in DOMAIN C.lib} }
RECURSIVE CountIn(_, _, _)
CountIn(seq, x, i) == IF i > Len(seq) THEN 0 ELSE (IF seq[i] = x THEN 1 ELSE 0) + CountIn(seq, x, i + 1)
Avail(C, n, d) == LET ms == {mm \in Members(n) : mm[2] \in DOMAIN C.lib} IN
                  LET F[S \in SUBSET ms] == IF S = {} THEN 0
                        ELSE LET m == CHOOSE x \in S : TRUE IN CountIn(C.lib[m[2]].desc[m[3] + 1], d, 1) + F[S \ {m}]
                  IN F[ms]

(* ======================================================================= *)
(* C02 - the coarse-to-fine mapping is a faithful partition into copies    *)
(* ======================================================================= *)
C02_Records(C, O) ==
  \A n \in FNodes(O) : /\ n.fragid # <<>> /\ FragOf(n) \subseteq CoarseIds(C)
                       /\ (Mapped(n) => Len(n.map) = Len(n.fragid))
                       /\ \A k \in FragOf(n) : IsReal(C, k)

CoarseNode(O, k) == CHOOSE c \in ToSet(O.coarse.nodes) : c.id = k
C02_Graph(C, O) ==
  /\ {c.id : c \in ToSet(O.coarse.nodes)} = CoarseIds(C)
  /\ \A k \in CoarseIds(C) : ToSet(CoarseNode(O, k).graph) = {n.id : n \in {m \in FNodes(O) : k \in FragOf(m)}}

C02_Cover(C, O) == UNION {ToSet(c.graph) : c \in ToSet(O.coarse.nodes)} = FIds(O)

(* a shared atom carries the identity of one of the template atoms merged into it *)
AtomMatches(C, n, a) ==
  /\ IF Len(n.fragid) = 1
     THEN (IF C.allAtom THEN n.el = a.el /\ n.chg = a.ch ELSE n.name = a.el)
     ELSE \E m \in Members(n) : m[2] \in DOMAIN C.lib /\
            LET b == C.lib[m[2]].atoms[m[3] + 1] IN
            IF C.allAtom THEN n.el = b.el /\ n.chg = b.ch ELSE n.name = b.el
  /\ (a.a # <<>> => BindAttrs(a.a, AtomDialect) \subseteq {<<p[1], p[2]>> : p \in ToSet(n.attrs)})
  \* an atom written WITHOUT annotation has the defaults - not what an earlier atom of the fragment was given
  /\ ((a.a = <<>> /\ C.allAtom /\ Len(n.fragid) = 1) =>
         /\ BindAttrs(<<>>, AtomDialect) \subseteq {<<p[1], p[2]>> : p \in ToSet(n.attrs)}
         /\ \A p \in ToSet(n.attrs) : p[1] = "chiral" => p[2] = "")

(* a template bond keeps its order; a bond the result reports as aromatic (both ends aromatic) reads 1.5, *)
(* and a bond written between two lower-case (aromatic) atoms may be reported kekulised                  *)
OrderAgrees(O, e, o2, writtenAromatic) ==
  \/ e[3] = o2
  \/ (e[3] = 3 /\ NodeOf(O, e[1]).arom /\ NodeOf(O, e[2]).arom)
  \/ (writtenAromatic /\ e[3] \in {2, 3, 4})

C02_CopyOf(C, O, k) ==
  LET t == Tpl(C, k) IN
  \* (a written hydrogen without annotation may be folded into its parent and re-created on completion)
  /\ \A i \in 0..(NAtoms(t) - 1) :
        IF C.allAtom /\ t.atoms[i + 1].el = "H" /\ t.atoms[i + 1].a = <<>> /\ NAtoms(t) > 1
        THEN Cardinality(Inst(C, O, k, i)) <= 1 ELSE Cardinality(Inst(C, O, k, i)) = 1
  /\ \A i, j \in 0..(NAtoms(t) - 1) : (i # j /\ Inst(C, O, k, i) # {}) => Inst(C, O, k, i) # Inst(C, O, k, j)
  /\ \A i \in 0..(NAtoms(t) - 1) : Inst(C, O, k, i) # {} => AtomMatches(C, TheInst(C, O, k, i), t.atoms[i + 1])
  \* no other mapped atom claims to stem from k
  /\ \A n \in FNodes(O) : \A m \in Members(n) : m[1] = k => (m[2] = NameOf(C, k) /\ m[3] \in 0..(NAtoms(t) - 1))
  \* every template bond is there, with its order
  /\ \A b \in t.bonds : (Inst(C, O, k, b[1]) # {} /\ Inst(C, O, k, b[2]) # {}) =>
        \E e \in EdgeBetween(O, TheInst(C, O, k, b[1]).id, TheInst(C, O, k, b[2]).id) :
            OrderAgrees(O, e, b[3], t.atoms[b[1] + 1].ar /\ t.atoms[b[2] + 1].ar)

(* every bond without descriptors between two mapped atoms is a template bond of a common coarse node *)
C02_NoExtraInternal(C, O) ==
  \A e \in FEdges(O) :
    LET a == NodeOf(O, e[1]) b == NodeOf(O, e[2]) IN
    (Mapped(a) /\ Mapped(b) /\ e[4] = <<>> /\ ~Inter(O, e)) =>
       \E ma \in Members(a), mb \in Members(b) :
          /\ ma[1] = mb[1] /\ ma[2] \in DOMAIN C.lib
          /\ \E tb \in C.lib[ma[2]].bonds : {tb[1], tb[2]} = {ma[3], mb[3]}

C02_Fragname(C, O) ==
  \A n \in FNodes(O) : Mapped(n) => n.fragname \in {NameOf(C, k) : k \in FragOf(n)}

C02_Copy(C, O) == /\ \A k \in {kk \in CoarseIds(C) : IsReal(C, kk)} : C02_CopyOf(C, O, k)
                  /\ C02_NoExtraInternal(C, O)
                  /\ C02_Fragname(C, O)

(* ======================================================================= *)
(* C03 - inter-fragment bonds follow the base graph and descriptor rules   *)
(* ======================================================================= *)
C03_Across(C, O) ==
  \A e \in InterEdges(O) :
     \E ka \in FragOf(NodeOf(O, e[1])), kb \in FragOf(NodeOf(O, e[2])) : BaseOrder(C, ka, kb) >= 1

C03_NoBareBond(C, O) == \A e \in InterEdges(O) : e[4] # <<>>

(* bonds counted for base edge (a, b): inter-fragment bonds between atoms of exactly a and exactly b, *)
(* plus atoms shared by exactly a and b                                                              *)
MadeFor(O, a, b) ==
  Cardinality({e \in InterEdges(O) : {FragOf(NodeOf(O, e[1])), FragOf(NodeOf(O, e[2]))} = {{a}, {b}}})
  + Cardinality({n \in FNodes(O) : Mapped(n) /\ FragOf(n) = {a, b} /\ Len(n.fragid) = 2})
(* upper bound when atoms are shared: every bond or shared atom that could belong to base edge (a, b) *)
MadeForMax(O, a, b) ==
  Cardinality({e \in InterEdges(O) : \/ (a \in FragOf(NodeOf(O, e[1])) /\ b \in FragOf(NodeOf(O, e[2])))
                                     \/ (b \in FragOf(NodeOf(O, e[1])) /\ a \in FragOf(NodeOf(O, e[2])))})
  + Cardinality({n \in FNodes(O) : Mapped(n) /\ {a, b} \subseteq FragOf(n)})
NoWideSharing(O) == \A n \in FNodes(O) : Mapped(n) => Len(n.fragid) <= 2
C03_CountLE(C, O) == \A e \in C.edges : MadeFor(O, e[1], e[2]) <= e[3]
C03_CountEQ(C, O) == \A e \in C.edges : MadeFor(O, e[1], e[2]) <= e[3] /\ MadeForMax(O, e[1], e[2]) >= e[3]

(* the descriptor pair written on the bond, as template triples carried by its two ends (either orientation) *)
PairOn(C, O, e) ==
  LET a == NodeOf(O, e[1]) b == NodeOf(O, e[2]) IN
  {<<d, f>> \in CarriedBy(C, a) \X CarriedBy(C, b) :
      \/ (DStr(d) = e[4][1] /\ DStr(f) = e[4][2])
      \/ (DStr(d) = e[4][2] /\ DStr(f) = e[4][1])}
Bonded(O) == {e \in FEdges(O) : e[4] # <<>>}
C03_Carried(C, O) == \A e \in Bonded(O) : PairOn(C, O, e) # {}
C03_Compatible(C, O) == \A e \in Bonded(O) : \E p \in PairOn(C, O, e) : Compatible(p[1], p[2], C.legacy)
BothAromatic(O, e) == NodeOf(O, e[1]).arom /\ NodeOf(O, e[2]).arom
C03_Order(C, O) ==
  \A e \in Bonded(O) : \E p \in PairOn(C, O, e) :
     /\ Compatible(p[1], p[2], C.legacy)
     /\ \/ e[3] = 2 * p[1][3] \/ e[3] = 2 * p[2][3]
        \/ (e[3] = 3 /\ BothAromatic(O, e))

(* no written descriptor is used for more than one bond: at every atom, the bonds that can only have   *)
(* used descriptor d there do not outnumber the d's written on it (shared atoms add their squash uses) *)
MustUse(C, O, n, d) ==
  Cardinality({e \in Bonded(O) :
     /\ n.id \in {e[1], e[2]}
     /\ DStr(d) \in {e[4][1], e[4][2]}
     /\ LET other == IF e[4][1] = DStr(d) THEN e[4][2] ELSE e[4][1] IN
        (other = DStr(d) \/ other \notin {DStr(x) : x \in CarriedBy(C, n)})})
C03_Once(C, O) ==
  \A n \in FNodes(O) : \A d \in CarriedBy(C, n) : MustUse(C, O, n, d) <= Avail(C, n, d)

(* ======================================================================= *)
(* C09 - complete standard valence (all-atom results)                      *)
(* ======================================================================= *)
HeavyB2(O, n) ==
  LET es == {e \in FEdges(O) : n.id \in {e[1], e[2]} /\ ~NodeOf(O, IF e[1] = n.id THEN e[2] ELSE e[1]).isH} IN
  LET S[X \in SUBSET es] == IF X = {} THEN 0 ELSE LET x == CHOOSE y \in X : TRUE IN x[3] + S[X \ {x}]
  IN S[es]
HCount(O, n) == Cardinality({m \in NbrIds(O, n.id) : NodeOf(O, m).isH})
C09_Complete(C, O) ==
  \A n \in FNodes(O) : (~n.isH /\ Fits(n.el, n.chg, HeavyB2(O, n))) =>
      HCount(O, n) = Need(n.el, n.chg, HeavyB2(O, n))
C09_HDegree(C, O) == \A n \in FNodes(O) : n.isH => Cardinality(NbrIds(O, n.id)) = 1
Weight(n) == {p[2] : p \in {q \in ToSet(n.attrs) : q[1] = "weight"}}
C09_HInherits(C, O) ==
  \A n \in FNodes(O) : (IsCompletedH(n) /\ Cardinality(NbrIds(O, n.id)) = 1) =>
     LET p == NodeOf(O, CHOOSE m \in NbrIds(O, n.id) : TRUE) IN
     /\ n.fragid = p.fragid /\ n.fragname = p.fragname /\ Weight(n) = Weight(p)

(* ======================================================================= *)
(* C10 - shared atoms                                                      *)
(* ======================================================================= *)
HasSquash(C, m) == \E d \in ToSet(C.lib[m[2]].desc[m[3] + 1]) : d[1] = "!"
(* an atom belongs to several coarse nodes only through '!' descriptors on all of its template atoms *)
C10_NothingElseMerged(C, O) ==
  \A n \in FNodes(O) : (Mapped(n) /\ Len(n.fragid) > 1) =>
     /\ Cardinality(FragOf(n)) = Len(n.fragid)
     /\ \A m \in Members(n) : m[2] \in DOMAIN C.lib /\ HasSquash(C, m)
     /\ \A m1, m2 \in Members(n) : m1 # m2 =>
          \/ BaseOrder(C, m1[1], m2[1]) >= 1
          \/ \E m3 \in Members(n) : BaseOrder(C, m1[1], m3[1]) >= 1 /\ BaseOrder(C, m3[1], m2[1]) >= 1
          \/ Cardinality(Members(n)) > 3
(* one atom fewer per shared pair *)
TotalTemplateAtoms(C) ==
  LET ks == {k \in CoarseIds(C) : IsReal(C, k)} IN
  LET S[X \in SUBSET ks] == IF X = {} THEN 0 ELSE LET x == CHOOSE y \in X : TRUE IN NAtoms(Tpl(C, x)) + S[X \ {x}]
  IN S[ks]
SharedPairs(O) ==
  LET ns == {n \in FNodes(O) : Mapped(n) /\ Len(n.fragid) > 1} IN
  LET S[X \in SUBSET ns] == IF X = {} THEN 0 ELSE LET x == CHOOSE y \in X : TRUE IN (Len(x.fragid) - 1) + S[X \ {x}]
  IN S[ns]
C10_OneFewerPerPair(C, O) ==
  Cardinality({n \in FNodes(O) : Mapped(n)}) = TotalTemplateAtoms(C) - SharedPairs(O)

(* ======================================================================= *)
(* C11 - virtual nodes and zero-order edges                                *)
(* ======================================================================= *)
C11_NoBondOnZero(C, O) == \A e \in C.edges : e[3] = 0 => MadeFor(O, e[1], e[2]) = 0
C11_VirtualEmpty(C, O) ==
  \A k \in CoarseIds(C) : ~IsReal(C, k) =>
     /\ CoarseNode(O, k).graph = <<>>
     /\ ~\E n \in FNodes(O) : k \in FragOf(n)

(* ======================================================================= *)
(* C12 - canonical numbering                                               *)
(* ======================================================================= *)
C12_Keys(C, O) == FIds(O) = 0..(Cardinality(FNodes(O)) - 1) /\ Cardinality(FNodes(O)) = Len(O.fine.nodes)
NoSharing(O) == \A n \in FNodes(O) : Len(n.fragid) = 1
C12_Contiguous(C, O) ==
  NoSharing(O) =>
    \A n, m \in FNodes(O) : n.id < m.id => n.fragid[1] <= m.fragid[1]
(* atom names (all-atom): element plus a running index, unique within each coarse node *)
C12_AtomNames(C, O) ==
  C.allAtom =>
    /\ \A n \in FNodes(O) : n.name_el = n.el /\ n.name_idx >= 0
    /\ \A k \in CoarseIds(C) : \A n, m \in {x \in FNodes(O) : k \in FragOf(x)} : (n.id # m.id) => n.name # m.name
    /\ (NoSharing(O) => \A k \in CoarseIds(C) :
          LET blk == {x \in FNodes(O) : k \in FragOf(x)} IN
          /\ {x.name_idx : x \in blk} = 0..(Cardinality(blk) - 1)
          \* a RUNNING index: it counts the atoms of the block in key order
          /\ \A x \in blk : x.name_idx = Cardinality({y \in blk : y.id < x.id}))

(* ======================================================================= *)
(* Dedicated configurations: every unit of every base edge has its own     *)
(* descriptor pair that is compatible with nothing else around it.         *)
(* ======================================================================= *)
(* all descriptor instances of the configuration: <<coarse node, template atom, position, descriptor>> *)
DInst(C) == UNION { UNION { { <<k, i, p, Tpl(C, k).desc[i + 1][p]>> : p \in DOMAIN Tpl(C, k).desc[i + 1] } :
                             i \in 0..(NAtoms(Tpl(C, k)) - 1) } :
                     k \in {kk \in CoarseIds(C) : IsReal(C, kk)} }
Dedicated(C) ==
  /\ \A k \in CoarseIds(C) : IsReal(C, k)
  \* every descriptor has exactly one partner in the whole configuration, across a base edge of order >= 1
  /\ \A x \in DInst(C) : Cardinality({y \in DInst(C) : y # x /\ y[1] # x[1] /\ Compatible(x[4], y[4], C.legacy)}) = 1
  /\ \A x \in DInst(C) : \A y \in DInst(C) :
        (y # x /\ y[1] # x[1] /\ Compatible(x[4], y[4], C.legacy)) => (BaseOrder(C, x[1], y[1]) >= 1 /\ x[4][3] = y[4][3])
  \* the pairs of one base edge are as many as its order and join distinct atom pairs
  /\ \A e \in C.edges :
        LET ps == {x \in DInst(C) : x[1] = e[1] /\ \E y \in DInst(C) : y[1] = e[2] /\ Compatible(x[4], y[4], C.legacy)} IN
        /\ Cardinality(ps) = e[3]
        /\ \A x1, x2 \in ps : x1 # x2 =>
             LET y1 == CHOOSE y \in DInst(C) : y[1] = e[2] /\ Compatible(x1[4], y[4], C.legacy)
                 y2 == CHOOSE y \in DInst(C) : y[1] = e[2] /\ Compatible(x2[4], y[4], C.legacy)
             IN <<x1[2], y1[2]>> # <<x2[2], y2[2]>>
=============================================================================
