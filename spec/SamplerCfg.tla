----------------------------- MODULE SamplerCfg -----------------------------
(***************************************************************************)
(* From a raw sampler configuration (fragment tokens, reactivity tables,   *)
(* terminals) to the configuration K of Sampler.tla; element-derived       *)
(* fragment masses (C17_MassTable).                                        *)
(***************************************************************************)
EXTENDS Sampler, Chem

F == INSTANCE FragText

Tr(d) == <<d[1], d[2], d[3]>>
CfgOf(raw, masses, target) ==
  [ frags |-> [i \in DOMAIN raw.frags |->
                 LET fs == F!DenoteF(raw.frags[i][2], raw.coarse) IN
                 [ name |-> raw.frags[i][1], natoms |-> Len(fs.atoms), desc |-> fs.desc,
                   atoms |-> fs.atoms, bonds |-> fs.bonds, mass |-> masses[i] ]],
    react |-> {<<Tr(r[1]), r[2]>> : r \in SToSet(raw.react)},
    cond |-> {<<Tr(c[1]), Tr(c[2]), c[3]>> : c \in SToSet(raw.cond)},
    terminal |-> {Tr(d) : d \in SToSet(raw.terminal)},
    target |-> target ]

(* mass of a fragment: its atoms plus the hydrogens that complete the valence of the isolated fragment *)
MassOf(K, f) ==
  LET fr == K.frags[f] IN
  LET B2(a) == LET es == {e \in fr.bonds : a - 1 \in {e[1], e[2]}} IN
               LET Sm[X \in SUBSET es] == IF X = {} THEN 0 ELSE LET x == CHOOSE y \in X : TRUE IN x[3] + Sm[X \ {x}] IN Sm[es] IN
  LET Tot[i \in 0..fr.natoms] == IF i = 0 THEN 0
        ELSE LET at == fr.atoms[i] IN
             Tot[i - 1] + (IF at.el \in DOMAIN MassMilli THEN MassMilli[at.el] ELSE 0)
                        \* a hydrogen written on an aromatic ring atom ([nH]) stays; every other atom is completed by valence
                        + (IF at.ar /\ at.hc > 0 THEN at.hc * MassMilli["H"]
                           ELSE IF Fits(at.el, at.ch, B2(i)) THEN Need(at.el, at.ch, B2(i)) * MassMilli["H"] ELSE 0)
  IN Tot[fr.natoms]
MassKnown(K, f) == \A i \in DOMAIN K.frags[f].atoms : K.frags[f].atoms[i].el \in DOMAIN MassMilli
=============================================================================
