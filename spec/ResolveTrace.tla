---------------------------- MODULE ResolveTrace ----------------------------
(***************************************************************************)
(* Trace validation of MoleculeResolver.resolve() against Resolve.tla.     *)
(*                                                                         *)
(* Record (one resolution step, logged when the step's graphs are yielded):*)
(*  [ mode |-> "resolve",                                                  *)
(*    base |-> graph tokens  (or basegraph |-> [names, edges] when the     *)
(*             coarse graph is a previous fine graph / given as a graph),  *)
(*    frags |-> <<<<name, fragment tokens>>>>, fragcoarse, legacy, allAtom,*)
(*    obs |-> [outcome, coarse, fine],                                     *)
(*    ref |-> reference molecule (C01/C10), wit |-> fine id -> ref atom ]  *)
(* The configuration C is derived here from the tokens with CGGraph!DenoteM *)
(* and FragText!DenoteF; the verdict is a total vector of named clauses.   *)
(***************************************************************************)
EXTENDS Resolve, Json, IOUtils

G == INSTANCE CGGraph
F == INSTANCE FragText

Traces == JsonDeserialize(IOEnv.TRACE_FILE)
VARIABLES tid, done, cfg
vars == <<tid, done, cfg>>
T == Traces[tid]

HasBaseTokens == T.basekind = "tokens"
BaseD == G!DenoteM(T.base)
Names == IF HasBaseTokens THEN G!NodeNames(BaseD) ELSE T.basegraph.names
BEdges == IF HasBaseTokens THEN G!EdgeSet(BaseD)
          ELSE {<<e[1], e[2], e[3]>> : e \in ToSet(T.basegraph.edges)}

FragNames == {T.frags[i][1] : i \in DOMAIN T.frags}
FirstDef(name) == CHOOSE i \in DOMAIN T.frags : T.frags[i][1] = name /\ \A j \in 1..(i - 1) : T.frags[j][1] # name
TemplateOf(name) ==
  LET fs == F!DenoteF(T.frags[FirstDef(name)][2], T.fragcoarse) IN
  [atoms |-> fs.atoms, bonds |-> fs.bonds, desc |-> fs.desc]

Cfg == [ names |-> Names, edges |-> BEdges,
         lib |-> [name \in FragNames |-> TemplateOf(name)],
         legacy |-> T.legacy, allAtom |-> T.allAtom ]

InDomain ==
  /\ (HasBaseTokens => G!InGrammarM(T.base) /\ G!AnnInDom(T.base) /\ G!Fault(BaseD) = "" /\ G!AnnErr(BaseD) = "")
  /\ \A i \in DOMAIN T.frags : F!InGrammarF(T.frags[i][2], T.fragcoarse)
  /\ \A i \in DOMAIN T.frags : \A j \in DOMAIN T.frags[i][2] :
        T.frags[i][2][j].k = "A" => BindError(T.frags[i][2][j].a, AtomDialect) = "" /\ AnnInDomain(T.frags[i][2][j].a, AtomDialect)

O == T.obs

(* ---------------- C01 / C10: the reference molecule ---------------- *)
(* ref.atoms[i] = <<el, chg, nH, blocks>> ; ref.bonds = <<a, b, order2>> (1-based atom positions) *)
(* wit = sequence of <<fine id, ref atom>> for every non-hydrogen fine atom                     *)
WitMap == [p \in {w[1] : w \in ToSet(T.wit)} |-> (CHOOSE w \in ToSet(T.wit) : w[1] = p)[2]]
HeavyFine == {n \in FNodes(O) : ~n.isH}
C01_Original ==
  /\ DOMAIN WitMap = {n.id : n \in HeavyFine}
  /\ {WitMap[p] : p \in DOMAIN WitMap} = DOMAIN T.ref.atoms
  /\ Cardinality(DOMAIN WitMap) = Len(T.ref.atoms)
  /\ \A n \in HeavyFine : LET r == T.ref.atoms[WitMap[n.id]] IN
        /\ n.el = r[1] /\ n.chg = r[2] /\ HCount(O, n) = r[3]
  /\ {<<RPair(WitMap[e[1]], WitMap[e[2]])[1], RPair(WitMap[e[1]], WitMap[e[2]])[2], e[3]>> :
         e \in {f \in FEdges(O) : ~NodeOf(O, f[1]).isH /\ ~NodeOf(O, f[2]).isH}}
       = {<<b[1], b[2], b[3]>> : b \in ToSet(T.ref.bonds)}
NoBlocks == "noblocks" \in DOMAIN T
C10_SharedBelongsToBoth ==
  NoBlocks \/ \A n \in HeavyFine : n.id \in DOMAIN WitMap => FragOf(n) = ToSet(T.ref.atoms[WitMap[n.id]][4])

HasRef == "ref" \in DOMAIN T

(* ---------------- C15: stereo information against the uncut molecule ---------------- *)
(* reftoks = the uncut molecule as one fragment text (atom i of it is reference atom i + 1) *)
HasStereo == "reftoks" \in DOMAIN T
RefRel == {<<r[1] + 1, r[2] + 1, r[3] + 1, r[4] + 1, r[5]>> : r \in F!FragRel(T.reftoks)}
ObsRelRaw == UNION {{<<t[1], t[2], t[3], t[4], t[5]>> : t \in ToSet(n.ez)} : n \in FNodes(O)}
InWit(p) == p \in DOMAIN WitMap
C15_PathExists ==
  \A t \in ObsRelRaw :
     /\ t[1] \in FIds(O) /\ t[2] \in FIds(O) /\ t[3] \in FIds(O) /\ t[4] \in FIds(O)
     /\ EdgeBetween(O, t[1], t[2]) # {} /\ EdgeBetween(O, t[3], t[4]) # {}
     /\ \E e \in EdgeBetween(O, t[2], t[3]) : e[3] = 4
C15_Relation ==
  /\ \A t \in ObsRelRaw : InWit(t[1]) /\ InWit(t[2]) /\ InWit(t[3]) /\ InWit(t[4])
  /\ {<<WitMap[t[1]], WitMap[t[2]], WitMap[t[3]], WitMap[t[4]], t[5]>> : t \in ObsRelRaw} = RefRel
RefChiral == F!ChiralOf(T.reftoks)
C15_Chiral ==
  \A n \in HeavyFine : n.id \in DOMAIN WitMap =>
     IF (WitMap[n.id] - 1) \in DOMAIN RefChiral THEN n.chiral = RefChiral[WitMap[n.id] - 1] ELSE n.chiral = ""

(* ---------------- C11: the twin configuration without virtual nodes / zero-order edges ---------------- *)
HasTwin == "twin" \in DOMAIN T
Core(n) == <<n.id, n.el, n.name_el, n.chg, n.isH, IF T.allAtom THEN "" ELSE n.name>>
C11_SameMolecule ==
  /\ T.twin.outcome = "ok"
  /\ {Core(n) : n \in FNodes(O)} = {Core(n) : n \in ToSet(T.twin.fine.nodes)}
  /\ {<<e[1], e[2], e[3]>> : e \in FEdges(O)} = {<<e[1], e[2], e[3]>> : e \in ToSet(T.twin.fine.edges)}

Verdict ==
  IF cfg = <<>> THEN [dom |-> FALSE]
  ELSE
    LET C == cfg
        exp == ExpectedOutcome(C)
        ok == O.outcome = "ok"
    IN IF exp # "ok" \/ ~ok
       THEN [ dom |-> TRUE, expected |-> exp, outcome |-> O.outcome, checked |-> FALSE,
              C20_Raises |-> (exp # "ok") => O.outcome = exp,
              C20_NoGraph |-> (exp # "ok") => ~ok,
              C11_RejectsBondedVirtual |-> (exp # "ok") => O.outcome = exp,
              X_Accepted |-> (exp = "ok") => ok ]
       ELSE
         [ dom |-> TRUE, expected |-> exp, outcome |-> O.outcome, checked |-> TRUE,
           dedicated |-> Dedicated(C), sharing |-> ~NoSharing(O), widesharing |-> ~NoWideSharing(O),
           hasvirtual |-> \E k \in CoarseIds(C) : ~IsReal(C, k),
           haszero |-> \E e \in C.edges : e[3] = 0,
           X_Accepted |-> TRUE,
           X_CoarseIsInput |-> /\ [i \in DOMAIN O.coarse.nodes |-> O.coarse.nodes[i].name] = C.names
                               /\ {<<e[1], e[2], e[3]>> : e \in ToSet(O.coarse.edges)} = C.edges,
           C02_Records |-> C02_Records(C, O),
           C02_Graph |-> C02_Graph(C, O),
           C02_Cover |-> C02_Cover(C, O),
           C02_Copy |-> C02_Records(C, O) => C02_Copy(C, O),
           C03_Across |-> C03_Across(C, O),
           C03_NoBareBond |-> C03_NoBareBond(C, O),
           C03_CountLE |-> NoWideSharing(O) => C03_CountLE(C, O),
           C03_CountEQ |-> (Dedicated(C) /\ NoSharing(O)) => C03_CountEQ(C, O),
           C03_Carried |-> C03_Carried(C, O),
           C03_Compatible |-> C03_Carried(C, O) => C03_Compatible(C, O),
           C03_Order |-> C03_Carried(C, O) => C03_Order(C, O),
           C03_Once |-> C03_Once(C, O),
           C09_Complete |-> C.allAtom => C09_Complete(C, O),
           C09_HDegree |-> C.allAtom => C09_HDegree(C, O),
           C09_HInherits |-> C.allAtom => C09_HInherits(C, O),
           C10_NothingElseMerged |-> C10_NothingElseMerged(C, O),
           C10_OneFewerPerPair |-> (C02_Records(C, O) /\ ~\E k \in CoarseIds(C) : IsReal(C, k) /\ \E a \in ToSet(Tpl(C, k).atoms) : a.el = "H" /\ a.a = <<>>)
                                     => C10_OneFewerPerPair(C, O),
           C11_NoBondOnZero |-> NoWideSharing(O) => C11_NoBondOnZero(C, O),
           C11_VirtualEmpty |-> C11_VirtualEmpty(C, O),
           C12_Keys |-> C12_Keys(C, O),
           C12_Contiguous |-> C12_Contiguous(C, O),
           C12_AtomNames |-> C12_AtomNames(C, O),
           C11_SameMolecule |-> HasTwin => C11_SameMolecule,
           C15_PathExists |-> HasStereo => C15_PathExists,
           C15_Relation |-> HasStereo => C15_Relation,
           C15_Chiral |-> HasStereo => C15_Chiral,
           nrel |-> IF HasStereo THEN Cardinality(RefRel) ELSE 0,
           C01_Original |-> HasRef => C01_Original,
           C10_SharedBelongsToBoth |-> HasRef => C10_SharedBelongsToBoth ]

(* the configuration is derived once per trace (a state variable, so it is a value, not re-evaluated) *)
Init == /\ tid \in 1..Len(Traces) /\ done = FALSE
        /\ cfg = IF InDomain THEN Cfg ELSE <<>>
Next == /\ done = FALSE /\ done' = TRUE /\ tid' = tid /\ cfg' = cfg
        /\ PrintT(<<"V", tid, ToJson(Verdict)>>)
Spec == Init /\ [][Next]_vars
=============================================================================
