---------------------------- MODULE ResolveTrace ----------------------------
(***************************************************************************)
(* Trace validation of MoleculeResolver.resolve() against Resolve.tla.     *)
(*                                                                         *)
(* Record (one resolution step, logged when the step's graphs are yielded):*)
(*  [ mode |-> "resolve",                                                  *)
(*    base |-> graph tokens  (or basegraph |-> [names, edges] when the     *)
(*             coarse graph is a previous fine graph / given as a graph),  *)
(*    frags |-> <<<<name, fragment tokens>>>>, fragcoarse, legacy, allAtom,*)
(*    obs |-> [outcome, coarse, fine],                                     *)
(*    ref |-> reference molecule (C01/C10), wit |-> fine id -> ref atom ]  *)
(* The configuration C is derived here from the tokens with CGGraph!DenoteM *)
(* and FragText!DenoteF; the verdict is a total vector of named clauses.   *)
(***************************************************************************)
EXTENDS Resolve, Json, IOUtils

G == INSTANCE CGGraph
F == INSTANCE FragText

Traces == JsonDeserialize(IOEnv.TRACE_FILE)
VARIABLES tid, done, cfg
vars == <<tid, done, cfg>>
T == Traces[tid]

HasBaseTokens == T.basekind = "tokens"
BaseD == G!DenoteM(T.base)
Names == IF HasBaseTokens THEN G!NodeNames(BaseD) ELSE T.basegraph.names
BEdges == IF HasBaseTokens THEN G!EdgeSet(BaseD)
          ELSE {<<e[1], e[2], e[3]>> : e \in ToSet(T.basegraph.edges)}

FragNames == {T.frags[i][1] : i \in DOMAIN T.frags}
FirstDef(name) == CHOOSE i \in DOMAIN T.frags : T.frags[i][1] = name /\ \A j \in 1..(i - 1) : T.frags[j][1] # name
TemplateOf(name) ==
  LET fs == F!DenoteF(T.frags[FirstDef(name)][2], T.fragcoarse) IN
  [atoms |-> fs.atoms, bonds |-> fs.bonds, desc |-> fs.desc, marks |-> fs.marks]

Cfg == [ names |-> Names, edges |-> BEdges,
         lib |-> [name \in FragNames |-> TemplateOf(name)],
         legacy |-> T.legacy, allAtom |-> T.allAtom ]

InDomain ==
  /\ (HasBaseTokens => G!InGrammarM(T.base) /\ G!AnnInDom(T.base) /\ G!Fault(BaseD) = "" /\ G!AnnErr(BaseD) = "")
  /\ \A i \in DOMAIN T.frags : F!InGrammarF(T.frags[i][2], T.fragcoarse)
  \* the fragment blocks of the other levels of the same string (all of them are read when the resolver is built)
  /\ ("otherfrags" \in DOMAIN T => \A i \in DOMAIN T.otherfrags : F!InGrammarF(T.otherfrags[i][2], T.otherfrags[i][3]))
  /\ \A i \in DOMAIN T.frags : \A j \in DOMAIN T.frags[i][2] :
        T.frags[i][2][j].k = "A" => BindError(T.frags[i][2][j].a, AtomDialect) = "" /\ AnnInDomain(T.frags[i][2][j].a, AtomDialect)

O == T.obs

(* ---------------- C01 / C10: the reference molecule ---------------- *)
(* ref.atoms[i] = <<el, chg, nH, blocks>> ; ref.bonds = <<a, b, order2>> (1-based atom positions) *)
(* wit = sequence of <<fine id, ref atom>> for every non-hydrogen fine atom                     *)
WitMap == [p \in {w[1] : w \in ToSet(T.wit)} |-> (CHOOSE w \in ToSet(T.wit) : w[1] = p)[2]]
HeavyFine == {n \in FNodes(O) : ~n.isH}
RefB2(i) == LET bs == {b \in ToSet(T.ref.bonds) : i \in {b[1], b[2]}} IN
            LET S[X \in SUBSET bs] == IF X = {} THEN 0 ELSE LET x == CHOOSE y \in X : TRUE IN x[3] + S[X \ {x}] IN S[bs]
C01_Original ==
  /\ DOMAIN WitMap = {n.id : n \in HeavyFine}
  /\ {WitMap[p] : p \in DOMAIN WitMap} = DOMAIN T.ref.atoms
  /\ Cardinality(DOMAIN WitMap) = Len(T.ref.atoms)
  \* hydrogens: what Chem!Need demands for the reference atom's bonds (the generator's own count only where
  \* the bonds exceed every usual valence and the property makes no promise)
  /\ \A n \in HeavyFine : LET r == T.ref.atoms[WitMap[n.id]] IN
        /\ n.el = r[1] /\ n.chg = r[2]
        /\ HCount(O, n) = IF Fits(r[1], r[2], RefB2(WitMap[n.id])) THEN Need(r[1], r[2], RefB2(WitMap[n.id])) ELSE r[3]
  /\ {<<RPair(WitMap[e[1]], WitMap[e[2]])[1], RPair(WitMap[e[1]], WitMap[e[2]])[2], e[3]>> :
         e \in {f \in FEdges(O) : ~NodeOf(O, f[1]).isH /\ ~NodeOf(O, f[2]).isH}}
       = {<<b[1], b[2], b[3]>> : b \in ToSet(T.ref.bonds)}
NoBlocks == "noblocks" \in DOMAIN T
C10_SharedBelongsToBoth ==
  NoBlocks \/ \A n \in HeavyFine : n.id \in DOMAIN WitMap => FragOf(n) = ToSet(T.ref.atoms[WitMap[n.id]][4])

HasRef == "ref" \in DOMAIN T

(* ---------------- named deviation EZ_GlobalIndexOrder (known finding C15) ---------------- *)
(* What the implementation actually does with slash marks: every mark stores its character on the atom *)
(* before it and on the atom behind it (per ATOM, later marks overwrite); after merging, a double bond  *)
(* is interpreted by pysmiles' eight-case table, which looks at the characters of the two ligand ATOMS  *)
(* and at whether the first ligand has a smaller global index than its anchor.  The deviation is        *)
(* computed from the configuration alone (instances <<coarse node, template atom>> ordered              *)
(* lexicographically = the global numbering of heavy atoms without shared atoms; inter-fragment bonds   *)
(* = the dedicated descriptor pairs).                                                                  *)
DInsts(C) == UNION {{<<k, i>> : i \in 0..(NAtoms(Tpl(C, k)) - 1)} : k \in {kk \in CoarseIds(C) : IsReal(C, kk)}}
ILt(p, q) == p[1] < q[1] \/ (p[1] = q[1] /\ p[2] < q[2])
MarkLeft(m) == IF m.left = -1 THEN 0 ELSE m.left
TouchedBy(t, i) == {j \in DOMAIN t.marks : t.marks[j].right = i \/ MarkLeft(t.marks[j]) = i}
(* ... and a fragment that is a single node when it is read (a bracket atom without hydrogens, such as [O-]) *)
(* returns before its mark characters are stored                                                           *)
SingleNodeFragment(t) == NAtoms(t) = 1 /\ t.atoms[1].hc = 0
HasTok(C, p) == ~SingleNodeFragment(Tpl(C, p[1])) /\ TouchedBy(Tpl(C, p[1]), p[2]) # {}
TokOf(C, p) == LET t == Tpl(C, p[1]) js == TouchedBy(t, p[2]) IN t.marks[CHOOSE j \in js : \A j2 \in js : j2 <= j].c
DBonds(C) ==
  UNION {{<<<<k, b[1]>>, <<k, b[2]>>, b[3]>> : b \in Tpl(C, k).bonds} : k \in {kk \in CoarseIds(C) : IsReal(C, kk)}}
  \cup UNION {{<<<<x[1], x[2]>>, <<y[1], y[2]>>, 2 * x[4][3]>> :
                  y \in {z \in DInst(C) : z[1] # x[1] /\ Compatible(x[4], z[4], C.legacy) /\ ILt(<<x[1], x[2]>>, <<z[1], z[2]>>)}} :
               x \in DInst(C)}
DNbrs(C, p) == {b[2] : b \in {x \in DBonds(C) : x[1] = p}} \cup {b[1] : b \in {x \in DBonds(C) : x[2] = p}}
DDouble(C) == {<<IF ILt(b[1], b[2]) THEN b[1] ELSE b[2], IF ILt(b[1], b[2]) THEN b[2] ELSE b[1]>> : b \in {x \in DBonds(C) : x[3] = 4}}
DLigs(C, a, other) == {x \in DNbrs(C, a) \ {other} : HasTok(C, x)}
DevDangling(C) == \E d \in DDouble(C) : HasTok(C, d[1]) # HasTok(C, d[2])
DevConflict(C) == \E d \in DDouble(C) : \E a \in {d[1], d[2]} :
   LET ls == DLigs(C, a, IF a = d[1] THEN d[2] ELSE d[1]) IN
   \/ Cardinality(ls) > 2
   \/ (Cardinality(ls) = 2 /\ \E n1, n2 \in ls : n1 # n2 /\
         IF (ILt(n1, a) /\ ILt(n2, a)) \/ (ILt(a, n1) /\ ILt(a, n2)) THEN TokOf(C, n1) = TokOf(C, n2) ELSE TokOf(C, n1) # TokOf(C, n2))
DevRelOf(C, l1, a1, l2) == LET same == TokOf(C, l1) = TokOf(C, l2) IN
   IF ILt(l1, a1) THEN (IF same THEN "trans" ELSE "cis") ELSE (IF same THEN "cis" ELSE "trans")
DevRel(C) == UNION { UNION { { <<l1, d[1], d[2], l2, DevRelOf(C, l1, d[1], l2)>>, <<l2, d[2], d[1], l1, DevRelOf(C, l1, d[1], l2)>> } :
                              l1 \in DLigs(C, d[1], d[2]), l2 \in DLigs(C, d[2], d[1]) } :
                      d \in {x \in DDouble(C) : HasTok(C, x[1]) /\ HasTok(C, x[2])} }
InstOfNode(n) == LET m == CHOOSE mm \in Members(n) : TRUE IN <<m[1], m[3]>>
DevEZExplains(C) ==
  /\ Dedicated(C)
  /\ IF DevDangling(C) \/ DevConflict(C) THEN O.outcome = "exc:ValueError"
     ELSE /\ O.outcome = "ok" /\ NoSharing(O)
          /\ \A n \in FNodes(O) : n.ez # <<>> => Cardinality(Members(n)) = 1
          /\ {<<InstOfNode(NodeOf(O, t[1])), InstOfNode(NodeOf(O, t[2])), InstOfNode(NodeOf(O, t[3])), InstOfNode(NodeOf(O, t[4])), t[5]>> :
                  t \in UNION {{<<x[1], x[2], x[3], x[4], x[5]>> : x \in ToSet(n.ez)} : n \in FNodes(O)}} = DevRel(C)

(* ---------------- C15: stereo information against the uncut molecule ---------------- *)
(* reftoks = the uncut molecule as one fragment text (atom i of it is reference atom i + 1) *)
HasStereo == "reftoks" \in DOMAIN T
RefRel == {<<r[1] + 1, r[2] + 1, r[3] + 1, r[4] + 1, r[5]>> : r \in F!FragRel(T.reftoks)}
ObsRelRaw == UNION {{<<t[1], t[2], t[3], t[4], t[5]>> : t \in ToSet(n.ez)} : n \in FNodes(O)}
InWit(p) == p \in DOMAIN WitMap
C15_PathExists ==
  \A t \in ObsRelRaw :
     /\ t[1] \in FIds(O) /\ t[2] \in FIds(O) /\ t[3] \in FIds(O) /\ t[4] \in FIds(O)
     /\ EdgeBetween(O, t[1], t[2]) # {} /\ EdgeBetween(O, t[3], t[4]) # {}
     /\ \E e \in EdgeBetween(O, t[2], t[3]) : e[3] = 4
C15_Relation ==
  /\ \A t \in ObsRelRaw : InWit(t[1]) /\ InWit(t[2]) /\ InWit(t[3]) /\ InWit(t[4])
  /\ {<<WitMap[t[1]], WitMap[t[2]], WitMap[t[3]], WitMap[t[4]], t[5]>> : t \in ObsRelRaw} = RefRel
RefChiral == F!ChiralOf(T.reftoks)
C15_Chiral ==
  \A n \in HeavyFine : n.id \in DOMAIN WitMap =>
     IF (WitMap[n.id] - 1) \in DOMAIN RefChiral THEN n.chiral = RefChiral[WitMap[n.id] - 1] ELSE n.chiral = ""

(* ---------------- C11: the twin configuration without virtual nodes / zero-order edges ---------------- *)
HasTwin == "twin" \in DOMAIN T
Core(n) == <<n.id, n.el, n.name_el, n.chg, n.isH, IF T.allAtom THEN "" ELSE n.name>>
C11_SameMolecule ==
  /\ T.twin.outcome = "ok"
  /\ {Core(n) : n \in FNodes(O)} = {Core(n) : n \in ToSet(T.twin.fine.nodes)}
  /\ {<<e[1], e[2], e[3]>> : e \in FEdges(O)} = {<<e[1], e[2], e[3]>> : e \in ToSet(T.twin.fine.edges)}

(* every mapping entry of the observation names an atom of the template it claims to instantiate *)
MapsExist(C) == \A n \in FNodes(O) : \A m \in Members(n) :
                   m[2] \in DOMAIN C.lib => (m[3] + 1) \in DOMAIN C.lib[m[2]].desc

Verdict ==
  IF cfg = <<>> THEN [dom |-> FALSE]
  ELSE
    LET C == cfg
        exp == ExpectedOutcome(C)
        ok == O.outcome = "ok"
    IN IF exp # "ok" \/ ~ok
       THEN [ dom |-> TRUE, expected |-> exp, outcome |-> O.outcome, checked |-> FALSE,
              C20_Raises |-> (exp # "ok") => O.outcome = exp,
              C20_NoGraph |-> (exp # "ok") => ~ok,
              C11_RejectsBondedVirtual |-> (exp # "ok") => O.outcome = exp,
              dev_EZ_GlobalIndexOrder |-> ("reftoks" \in DOMAIN T /\ exp = "ok") /\ DevEZExplains(C),
              X_Accepted |-> (exp = "ok") => ok ]
       ELSE IF ~MapsExist(C)
       THEN \* the observation refers to template atoms that do not exist: nothing else can be evaluated (verdicts are total)
         [ dom |-> TRUE, expected |-> exp, outcome |-> O.outcome, checked |-> TRUE, X_Accepted |-> TRUE,
           X_MapsExist |-> FALSE, C02_Records |-> FALSE, C02_Copy |-> FALSE, C02_Cover |-> FALSE,
           C01_Original |-> FALSE, C09_Complete |-> FALSE, C12_Keys |-> C12_Keys(C, O) ]
       ELSE
         [ dom |-> TRUE, expected |-> exp, outcome |-> O.outcome, checked |-> TRUE,
           dedicated |-> Dedicated(C), sharing |-> ~NoSharing(O), widesharing |-> ~NoWideSharing(O),
           hasvirtual |-> \E k \in CoarseIds(C) : ~IsReal(C, k),
           haszero |-> \E e \in C.edges : e[3] = 0,
           X_Accepted |-> TRUE,
           X_CoarseIsInput |-> /\ [i \in DOMAIN O.coarse.nodes |-> O.coarse.nodes[i].name] = C.names
                               /\ {<<e[1], e[2], e[3]>> : e \in ToSet(O.coarse.edges)} = C.edges,
           C02_Records |-> C02_Records(C, O),
           C02_Graph |-> C02_Graph(C, O),
           C02_Cover |-> C02_Cover(C, O),
           C02_Copy |-> C02_Records(C, O) => C02_Copy(C, O),
           C03_Across |-> C03_Across(C, O),
           C03_NoBareBond |-> C03_NoBareBond(C, O),
           C03_CountLE |-> NoWideSharing(O) => C03_CountLE(C, O),
           C03_CountEQ |-> (Dedicated(C) /\ NoSharing(O)) => C03_CountEQ(C, O),
           C03_Carried |-> C03_Carried(C, O),
           C03_Compatible |-> C03_Carried(C, O) => C03_Compatible(C, O),
           C03_Order |-> C03_Carried(C, O) => C03_Order(C, O),
           C03_Once |-> C03_Once(C, O),
           C09_Complete |-> C.allAtom => C09_Complete(C, O),
           C09_HDegree |-> C.allAtom => C09_HDegree(C, O),
           C09_HInherits |-> C.allAtom => C09_HInherits(C, O),
           C10_NothingElseMerged |-> C10_NothingElseMerged(C, O),
           C10_OneFewerPerPair |-> (C02_Records(C, O) /\ ~\E k \in CoarseIds(C) : IsReal(C, k) /\ \E a \in ToSet(Tpl(C, k).atoms) : a.el = "H" /\ a.a = <<>>)
                                     => C10_OneFewerPerPair(C, O),
           C11_NoBondOnZero |-> NoWideSharing(O) => C11_NoBondOnZero(C, O),
           C11_VirtualEmpty |-> C11_VirtualEmpty(C, O),
           C12_Keys |-> C12_Keys(C, O),
           C12_Contiguous |-> C12_Contiguous(C, O),
           C12_AtomNames |-> C12_AtomNames(C, O),
           C11_SameMolecule |-> HasTwin => C11_SameMolecule,
           dev_EZ_GlobalIndexOrder |-> HasStereo /\ DevEZExplains(C),
           C15_PathExists |-> HasStereo => C15_PathExists,
           C15_Relation |-> HasStereo => C15_Relation,
           C15_Chiral |-> HasStereo => C15_Chiral,
           nrel |-> IF HasStereo THEN Cardinality(RefRel) ELSE 0,
           C01_Original |-> HasRef => C01_Original,
           C10_SharedBelongsToBoth |-> HasRef => C10_SharedBelongsToBoth ]

(* the configuration is derived once per trace (a state variable, so it is a value, not re-evaluated) *)
Init == /\ tid \in 1..Len(Traces) /\ done = FALSE
        /\ cfg = IF InDomain THEN Cfg ELSE <<>>
Next == /\ done = FALSE /\ done' = TRUE /\ tid' = tid /\ cfg' = cfg
        /\ PrintT(<<"V", tid, ToJson(Verdict)>>)
Spec == Init /\ [][Next]_vars
=============================================================================
