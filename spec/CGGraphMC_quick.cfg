SPECIFICATION Spec
CONSTANTS
  MaxLen = 7
  NodeToks <- Nodes3
  SymToks <- SymQuick
  RingToks <- Rings3
  MultCounts <- NoMult
  MaxDepth = 2
  MaxOpen = 2
  EmitAll = FALSE
INVARIANT GenIsGrammar
INVARIANT TypeOK
INVARIANT SimpleGraph
INVARIANT EdgeCount
INVARIANT ExpandClean
INVARIANT SkeletonIsDenote
INVARIANT NodeOnlyKeepsOrder
INVARIANT Emit
CHECK_DEADLOCK FALSE
