"""
Replays resolver call histories in THIS process (started fresh by the harness with a chosen
PYTHONHASHSEED) and prints one JSON document with the observed events.

stdin: {"inputs": {id: {"variants": [str...], "levels": n, "all_atom": bool}}, "histories": [[event...]...]}
"""
import hashlib
import json
import sys

from . import common  # noqa: F401  (sets up sys.path for the repository)
from . import project


def canon(x):
    import networkx as nx
    import numpy as np
    if isinstance(x, nx.Graph):
        return {"nodes": sorted((repr(n), canon(dict(d))) for n, d in x.nodes(data=True)),
                "edges": sorted((sorted([repr(a), repr(b)]), canon(dict(d))) for a, b, d in x.edges(data=True))}
    if isinstance(x, dict):
        return sorted((str(k), canon(v)) for k, v in x.items())
    if isinstance(x, (list, tuple)):
        return [canon(v) for v in x]
    if isinstance(x, np.ndarray):
        return [float(v) for v in x.ravel()]
    if isinstance(x, float):
        return repr(x)
    if isinstance(x, (int, str, bool)) or x is None:
        return x
    return repr(x)


def digest(*objs):
    s = json.dumps([canon(o) for o in objs], sort_keys=True, default=repr)
    return hashlib.sha1(s.encode()).hexdigest()[:16]


def other_use(kind, inp):
    """unrelated use of the library in the same process (ResolverAPI!Other)"""
    import pysmiles
    import networkx as nx
    from cgsmiles import MoleculeResolver, read_cgsmiles
    from cgsmiles.read_fragments import read_fragments
    if kind == "mass":
        # a plain molecule graph without fragment attributes
        from cgsmiles.pysmiles_utils import compute_mass, rebuild_h_atoms
        g = pysmiles.read_smiles("CC(=O)O")
        compute_mass(g)
        h = nx.Graph()
        h.add_node(0, element="C", aromatic=False, charge=0)
        h.add_node(1, element="O", aromatic=False, charge=0)
        h.add_edge(0, 1, order=1)
        rebuild_h_atoms(h)
    elif kind == "sample":
        from cgsmiles.sample import MoleculeSampler
        s = MoleculeSampler.from_fragment_string("{#A=[$]CC[$],#B=[$]C(C)O[$]}", polymer_reactivities={"$1": 1.0},
                                                 all_atom=True, seed=3)
        s.sample(150)
        s2 = MoleculeSampler.from_fragment_string("{#A=[>][#X][<],#B=[>][#Y]([#Z])[<]}", polymer_reactivities={">1": 0.5, "<1": 0.5},
                                                  fragment_masses={"A": 10, "B": 20}, all_atom=False, seed=4)
        s2.sample(60)
    elif kind == "write":
        from cgsmiles.write_cgsmiles import write_cgsmiles_graph, write_cgsmiles_fragments
        r = MoleculeResolver.from_string("{[#A][#B]1[#A][#A]1}.{#A=[$]C[$][$],#B=[$]N(C)[$][$]}")
        meta, mol = r.resolve()
        write_cgsmiles_graph(meta)
        write_cgsmiles_fragments({n: g for n, g in r.fragment_dicts[0].items()}, smiles_format=True)
    elif kind == "read":
        read_cgsmiles("{[#A;q=1;mass=72]([#B;w=0.5])|2[#A;q=1;mass=72]1[#C][#C]1}")
        read_fragments("{#A=[$]C[C;x=R;w=0.5](F)[$],#B=[<]c1ccccc1[>]}")
        read_fragments("{#A=[$][#K][#L;0.5][$]}", all_atom=False)
    else:
        raise ValueError(kind)


def main():
    import re
    from cgsmiles import MoleculeResolver, read_cgsmiles
    from cgsmiles.read_fragments import read_fragments
    spec = json.load(sys.stdin)
    inputs = {int(k): v for k, v in spec["inputs"].items()}
    shared = {}
    for i, inp in inputs.items():
        elements = re.findall(r"\{[^\}]+\}", inp["variants"][0])
        with project.quiet():
            shared[i] = [read_fragments(b, all_atom=(inp["all_atom"] and j == len(elements) - 2))
                         for j, b in enumerate(elements[1:])]

    def libdigest():
        return digest([[sorted((k, canon(g)) for k, g in d.items()) for d in shared[i]] for i in sorted(shared)])

    out = []
    for hist in spec["histories"]:
        objs = {}
        events = []
        for ev in hist:
            inp = inputs[ev["inp"]]
            rec = {"op": ev["op"], "obj": ev["obj"], "inp": ev["inp"], "ctor": ev["ctor"], "outcome": "ok", "yields": []}
            try:
                with project.quiet():
                    if ev["op"] == "other":
                        other_use(ev["ctor"], inp)
                    elif ev["op"] == "new_bad":
                        text = inp["variants"][0]
                        elements = re.findall(r"\{[^\}]+\}", text)
                        if ev["ctor"] == "graph_without_fragname":
                            g = read_cgsmiles(elements[0])
                            del g.nodes[0]["fragname"]
                            MoleculeResolver.from_graph(".".join(elements[1:]), g, last_all_atom=inp["all_atom"])
                        else:
                            MoleculeResolver.from_fragment_dicts(text, shared[ev["inp"]], last_all_atom=inp["all_atom"])
                    elif ev["op"] == "new":
                        text = inp["variants"][(ev["obj"] + ev.get("variant", 0)) % len(inp["variants"])]
                        elements = re.findall(r"\{[^\}]+\}", text)
                        if ev["ctor"] == "staged":
                            first = MoleculeResolver.from_string(elements[0] + "." + elements[1], last_all_atom=False)
                            _, g1 = first.resolve()
                            r = MoleculeResolver.from_graph(".".join(elements[2:]), g1, last_all_atom=inp["all_atom"])
                            objs[ev["obj"]] = [r, 1]
                            rec["lib"] = libdigest()
                            events.append(rec)
                            continue
                        if ev["ctor"] == "from_string":
                            r = MoleculeResolver.from_string(text, last_all_atom=inp["all_atom"])
                        elif ev["ctor"] == "from_graph":
                            r = MoleculeResolver.from_graph(".".join(elements[1:]), read_cgsmiles(elements[0]),
                                                            last_all_atom=inp["all_atom"])
                        else:
                            r = MoleculeResolver.from_fragment_dicts(elements[0], shared[ev["inp"]],
                                                                     last_all_atom=inp["all_atom"])
                        objs[ev["obj"]] = [r, 0]
                    else:
                        r, lv = objs[ev["obj"]]
                        if ev["op"] in ("resolve", "resolve_past"):
                            meta, mol = r.resolve()
                            lv += 1
                            rec["yields"].append([lv, digest(meta, mol)])
                        elif ev["op"] == "resolve_iter":
                            for meta, mol in r.resolve_iter():
                                lv += 1
                                rec["yields"].append([lv, digest(meta, mol)])
                        elif ev["op"] == "resolve_all":
                            meta, mol = r.resolve_all()
                            lv = inputs[ev["inp"]]["levels"]
                            rec["yields"].append([lv, digest(meta, mol)])
                        objs[ev["obj"]][1] = lv
            except Exception as exc:
                rec["outcome"] = "exc:" + type(exc).__name__
            rec["lib"] = libdigest()
            events.append(rec)
        out.append(events)
    json.dump(out, sys.stdout)


if __name__ == "__main__":
    main()
