"""
Sampler configurations shared by the specification side (tools/gen_sampler_cfgs.py turns them into
spec/SamplerCfgs.tla for the exhaustive model) and the implementation side (props/sampler.py).
Descriptor keys are written as the user would write them; keys without a trailing order digit get
order 1 (the sampler's documented defaulting).
"""

CONFIGS = [
    dict(name="homo", frags="{#PE=[>]CC[<]}", all_atom=True, react={}, cond={}, terminal=[], targets=[30, 100, 250]),
    dict(name="copoly", frags="{#PMMA=[>]C(C)C[<]C(=O)OC,#PS=[>]CC[<]c1ccccc1}", all_atom=True,
         react={">": 0.5, "<": 0.5}, cond={}, terminal=[], targets=[150, 600]),
    dict(name="blocky", frags="{#PMMA=[$A]C(C)C[$B]C(=O)OC,#PS=[$C]CC[$D]c1ccccc1}", all_atom=True,
         react={"$A": 0.5, "$B": 0, "$C": 0.5, "$D": 0.0},
         cond={"$A": {"$A": 0., "$C": 0., "$B": 0.7, "$D": 0.3}, "$B": {"$A": 0.7, "$C": 0.3, "$B": 0.0, "$D": 0.0},
               "$C": {"$A": 0., "$C": 0., "$B": 0.3, "$D": 0.7}, "$D": {"$A": 0.3, "$C": 0.7, "$B": 0.0, "$D": 0.0}},
         terminal=[], targets=[200, 700]),
    dict(name="brush", frags="{#PMA=[>]CC[<]C(=O)OC[>A],#PEG=[<A]COC[>A][$A],#OH=[$B]O}", all_atom=True,
         react={"<": 0.1, ">": 0.1, ">A": 0.8, "<A": 0.8, "$A": 0.3, "$B": 0.0},
         cond={"$A": {"$A": 0, "$B": 1.0}}, terminal=["$A", "$B"], targets=[300, 900]),
    dict(name="twoterm", frags="{#PEG=[<A]COC[>A][$TA][$TB],#OH=[$TC]O,#ME=[$TD]C}", all_atom=True,
         react={">A": 0.6, "<A": 0.6, "$TA": 0.3, "$TB": 0.3, "$TC": 0.0, "$TD": 0.0},
         cond={"$TA": {"$TC": 1.0, "$TD": 1.0, "$TA": 0, "$TB": 0}, "$TB": {"$TC": 1.0, "$TD": 1.0, "$TA": 0, "$TB": 0}},
         terminal=["$TA", "$TB", "$TC", "$TD"], targets=[200, 600]),
    dict(name="brushstart", frags="{#PMA=[>]CC[<]C(=O)OC[>A],#PEG=[<A]COC[>A][$A],#OH=[$B]O}", all_atom=True,
         react={"<": 0.1, ">": 0.1, ">A": 0.8, "<A": 0.8, "$A": 0.3, "$B": 0.0},
         cond={"$A": {"$A": 0, "$B": 1.0}}, terminal=["$A", "$B"], targets=[300], start_fragment="PEG"),
    # configurations that dead-end on purpose (error outcomes of the sampler, explained by the specification)
    dict(name="deadpartner", frags="{#A=[>]CC[<][>x]}", all_atom=True, react={}, cond={}, terminal=[], targets=[90]),
    dict(name="deadcond", frags="{#A=[$a]CC[$b]}", all_atom=True, react={}, cond={"$a": {"$a": 0, "$b": 0}}, terminal=[], targets=[90]),
    # a conditional row that mentions descriptors which are NOT complementary to its key: the table weights partners,
    # it does not make partners
    dict(name="rowextra", frags="{#A=[>A]CC[<A][$B],#B=[$B]O[$B]}", all_atom=True,
         react={">A": 0.5, "<A": 0.5, "$B": 0.5}, cond={">A": {"<A": 0.5, "$B": 0.5, ">A": 0.5}, "$B": {"$B": 1.0, "<A": 1.0}},
         terminal=[], targets=[120, 300]),
    # labels that end in a digit (the order is the LAST character only)
    dict(name="digitlabel", frags="{#PEO=[<1]COC[>1],#PE=[<1]CC[>1][$A2]=[$A2]}", all_atom=True, react={}, cond={}, terminal=[], targets=[150, 400]),
    # ends fully capped exactly when the target is reached: no open descriptor is left on the returned molecule
    dict(name="fullcap", frags="{#CORE=[$A]OCCO[$A],#CAP=[$B]C(=O)C}", all_atom=True, react={"$A": 1.0, "$B": 0.0},
         cond={"$A": {"$B": 1.0, "$A": 0.0}}, terminal=[], targets=[80], start_fragment="CORE"),
    # more than a thousand growth steps (beads of mass 1)
    dict(name="longchain", frags="{#A=[$][#X][$]}", all_atom=False, react={}, cond={}, terminal=[], targets=[1100],
         masses={"A": 1.0}, seeds=2, growth_only=True),
    # hetero-aromatic fragments: the hydrogen on a ring nitrogen counts for the mass
    dict(name="pyrrole", frags="{#VP=[$]CC([$])c1ccc[nH]1,#PY=[$]Cc1ccncc1C[$]}", all_atom=True, react={}, cond={}, terminal=[],
         targets=[300]),
    dict(name="orders", frags="{#A=[$]=CC[$],#B=[$]=C(F)C=[$],#C=[$]O[$]}", all_atom=True,
         react={}, cond={}, terminal=[], targets=[120, 400]),
    dict(name="dirorders", frags="{#A=[>]=CC[<],#B=[<]=C(N)C[>],#C=[>x]O[<x]=[<]}", all_atom=True,
         react={}, cond={}, terminal=[], targets=[120, 400]),
    dict(name="dextran", frags="{#GLC=[$A][#A]1[#B][$B][#C]1[$C]}", all_atom=False, masses={"GLC": 165},
         react={"$A": 0.8, "$C": 0.1, "$B": 0.1},
         cond={"$A": {"$A": 0.0, "$C": 1.0, "$B": 0.0}, "$B": {"$A": 1.0, "$C": 0.0, "$B": 0.0},
               "$C": {"$A": 1.0, "$C": 0.0, "$B": 0.0}}, terminal=[], targets=[400, 1700]),
    dict(name="cgtest", frags="{#test=[<][#A][#B][$][#C][>],#frag2=[$]=[#P][#D][<]}", all_atom=False,
         masses={"test": 100, "frag2": 60}, react={}, cond={}, terminal=[], targets=[250, 700]),
    dict(name="cgterm", frags="{#test=[<][#A][#B][#C][>][$A],#ter=[$B][#D]}", all_atom=False,
         masses={"test": 50, "ter": 10}, react={"<": 0.4, ">": 0.4, "$A": 0.2, "$B": 0.0},
         cond={"$A": {"$A": 0.0, "$B": 1.0}}, terminal=["$B"], targets=[120, 400]),
]


def parse_desc(s):
    """'$A' / '>A2' -> [kind, label, order] (order digit optional, default 1)"""
    s = str(s)
    if s[-1].isdigit():
        return [s[0], s[1:-1], int(s[-1])]
    return [s[0], s[1:], 1]
