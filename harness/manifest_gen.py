"""Generates /verif/MANIFEST.json from the registry (single source of truth for the per-property entries)."""
import json
import os

from . import common

LEVEL_TEXT = {
    "C01": ("model_checking", "Cut-and-resolve vs. Resolve.tla: molecules (catalogue + seeded random) are cut along every/random partitions into connected blocks, rendered with random SMILES renderings and base-graph numberings, resolved by the real resolver, and TLC validates the observation against the reference molecule under a checked witness (elements, charges, bond orders incl. 1.5, hydrogens = Chem!Need) together with every C02/C03/C09 clause.", "4.5, 5 C01"),
    "C02": ("model_checking", "Mapping fidelity vs. Resolve.tla: TLC enumerates every bounded base graph x 18 fragment libraries x both conventions (ResolveMC); every configuration is resolved through the three constructors and TLC checks C02_Records/Graph/Cover/Copy on every observation (templates derived in TLC from the fragment tokens by FragText!DenoteF).", "4.5, 5 C02"),
    "C03": ("model_checking", "Inter-fragment bonds vs. Resolve.tla on the ResolveMC universe (ambiguous libraries: unlabelled, homopolymers, several descriptors per atom, leftovers, both conventions): across-edge, count <= order (= order under the TLC-decided Dedicated predicate), compatibility, annotated order, descriptor-used-once.", "4.5, 5 C03"),
    "C06": ("model_checking", "Layered strings: molecules cut into blocks and grouped into 1-3 intermediate levels; every resolution step is validated by TLC (coarse graph of step k+1 = fine graph of step k, C02/C03 clauses), the final molecule equals the reference as does the flattened string; ResolverAPI.tla enumerates call histories (three drivers, four ways of constructing, unrelated library use in between) replayed and validated.", "5 C06, 3.4"),
    "C07": ("model_checking", "Graph writer vs. Writer.tla/CGGraph.tla: TLC model-checks RoundTrip for an abstract DFS writer over every connected graph <= 4 nodes, every DFS choice and every bond-order position (the design claim that a correct writer exists inside the reader's grammar); the real writer's output for those graphs, all atlas graphs <= 6 nodes with relabelings, and random graphs is tokenised and TLC checks grammar membership, CGGraph!Denote = G, and the read-back graph under a witness.", "4.7, 5 C07"),
    "C08": ("model_checking", "Fragment writer vs. FragText.tla: every bounded fragment token string is read, written and re-read; TLC compares FragText!DenoteF of the original and the re-written tokens (elements/names, charges, aromatic flags, bond orders, descriptor bags per atom) and the implementation's two graphs under a witness; complete multi-level strings are re-written from a resolver's inputs and resolved again, TLC checks the isomorphism of the final molecules.", "5 C08"),
    "C09": ("model_checking", "Valence completeness as a per-atom invariant (Chem!Need over usual valences of the isoelectronic atom) evaluated by TLC on every all-atom observation of the ResolveMC universe, repository strings and cut configurations; hydrogens: degree one, inherit membership/name/weight; sampler outputs (incl. fully capped molecules) are judged by the same clauses; the corpus is replayed after unrelated use of the hydrogen helpers in the same process.", "4.4, 5 C09"),
    "C10": ("model_checking", "Shared atoms: the C01 corpus with a random subset of cut bonds replaced by '!' sharing; TLC checks the merged molecule against the reference, membership of shared atoms in exactly their blocks, nothing else merged, one atom fewer per pair; layered strings with sharing at several levels.", "5 C10"),
    "C11": ("model_checking", "Virtual nodes / zero-order edges: ResolveMC enumerates base graphs with the fragment-less node V at every position and '.' edges; TLC checks no bond on zero edges, empty virtual nodes, others own exactly their atoms, SyntaxError for a bonded fragment-less node, and equality with the twin configuration without them (decorated configurations: twin read independently); layered strings with a virtual node at the top level.", "5 C11"),
    "C12": ("model_checking", "Canonical numbering clauses on every observation of the ResolveMC universe + ResolverAPI.tla call histories (3 constructors, 3 drivers, shared library objects, permuted definitions) replayed in fresh processes under several PYTHONHASHSEEDs and compared with a fresh-process reference digest by TLC (histories include unrelated library use between resolver events); plus spec->code replay of every behaviour of GraphOps.tla (merge/bond/squash/sort/annotate/names) and FragLib.tla (read_fragments dictionaries) into the real helper functions.", "5 C12, 3.4, 11"),
    "C04": ("model_checking", "Graph reader vs. CGGraph.tla: TLC enumerates every string of the bounded grammar (the enabling conditions are the grammar), model-checks the denotation's design invariants, and every enumerated / simulated / repository string is read by the real read_cgsmiles and validated by TLC (exact equality of numbering, names, annotation values, edges and orders with CGGraph!Denote).", "4.1, 5 C04"),
    "C05": ("model_checking", "Multiplier shorthand vs. CGGraph!Expand: TLC enumerates every bounded string with multipliers and computes the longhand; the real reader reads both; TLC checks the isomorphism witness (exact numbering for node multipliers).", "4.1, 5 C05"),
    "C13": ("model_checking", "Fragment tokenizer vs. FragText.tla: TLC enumerates every bounded fragment token string (descriptors of every kind/label/order at every allowed position, annotations, branches, ring digits, two-letter elements; atomistic and coarse), model-checks that inserting descriptors is inert for text and graph, and TLC compares strip_bonding_descriptors' cleaned text, descriptor lists and annotations with FragText!Strip exactly.", "4.2, 5 C13"),
    "C14": ("model_checking", "Annotation binding vs. Annot.tla: TLC enumerates every bounded entry sequence, model-checks positional=keyword, keyword-order irrelevance, defaults, numeric canonicity and verbatim free keys, and validates the attributes that arrive in the returned graphs at three sites (base node, coarse-fragment node, atom; reuse 1-3) against Annot!Bind.", "4.3, 5 C14"),
    "C15": ("model_checking", "Stereo vs. FragText!FragRel / ChiralOf: the cis/trans relations and chirality labels of the UNCUT molecule are computed by TLC from its token string (OpenSMILES semantics of the slash marks relative to writing order); stereo molecules are cut at the double bond, at single bonds elsewhere and through marked bonds, rendered with each fragment's marks in its own writing order, resolved, and TLC compares the observed relations (mapped through the checked witness), that every stored tuple is a path ligand-atom=atom-ligand, and that chirality labels sit on the witness-image atoms.", "5 C15"),
    "C16": ("model_checking", "Sampler vs. Sampler.tla: SamplerMC explores every growth trajectory of the small configurations (tree, complementary, once, never-zero, terminal invariants) and every finished trajectory is forced through the real sampler with a scripted RNG; every sampled molecule is decomposed into growth events and replayed through the spec's Grow action (one TLC state per event, each must be enabled), and validated as a resolved molecule (copy fidelity, numbering, valence); plus spec->code replay of OpenBonds.tla (find_open_bonds on every workbench state and target set, the complementarity table of find_complementary_bonding_descriptor).", "4.6, 5 C16"),
    "C17": ("model_checking", "Sampler vs. Sampler.tla with the RNG interposed in the harness process: at every draw the offered population and the positivity of its weights must equal the specification's enabled set (never-zero site/partner), leftover descriptors must equal the spec's open descriptors (terminal closes atom / terminals withdrawn), stop rule, element-derived masses vs. Chem.tla; seed histories in fresh processes under several PYTHONHASHSEEDs.", "4.6, 5 C17"),
    "C18": ("other", "RDKit bridge and forward mapping: the harness measures (chemistry before/after the round trip, which conformer atom's coordinates every node received, bead coefficient vectors obtained exactly by probing the linear map with unit positions), TLC evaluates the predicates of GeomTrace.tla (index model: node at iteration position p becomes RDKit atom p-1; coefficient = w/sum(w) over integers). Not model checking of geometry - stated in DESIGN.md.", "5 C18"),
    "C19": ("other", "2D layout: connected atlas graphs <= 6 nodes, paths/stars/rings/ladders, resolved molecules with hydrogens and E/Z marks x bond lengths x relabelings x NumPy seeds; the harness measures, TLC evaluates all-nodes / finite / no coincident bonded pair / mean bond length = requested (1e-6) on integer-scaled values. Thin by design: TLA+ cannot decide floating-point geometry.", "5 C19"),
    "C20": ("model_checking", "Fault mode of CGGraphMC / ResolveMC: every bounded string ending in one of the listed faults and single-fault injections into long simulated strings; the expected error is computed by the specification (CGGraph!Fault, Annot!BindError, Resolve!MissingFragment) and compared by TLC with the observed outcome.", "5 C20"),
}


def entry(pid):
    cat, text, ref = LEVEL_TEXT[pid]
    return {
        "property_id": pid,
        "quick_cmd": f"./check {pid} --tier quick",
        "thorough_cmd": f"./check {pid} --tier thorough",
        "evidence_file": f"/verif/evidence/{pid}.json",
        "replay_cmd_template": "./check replay {path}",
        "engine": "tlc",
        "level_claimed": {"category": cat, "text": text, "design_ref": "DESIGN.md " + ref},
        "level_note": "Trusted: TLC 1.8 and the TLA+ specs under /verif/spec; the Python harness only renders inputs, runs the implementation and projects documented attributes; pysmiles/networkx/RDKit are dependencies outside the system under test. Exhaustive only within the stated bounds; beyond them seeded simulation.",
        "technique": "explicit TLA+ spec + TLC model checking; spec->code replay of TLC-enumerated inputs; code->spec batch trace validation in TLC",
    }


def main():
    from .registry import CHECKS
    props = [json.loads(l)["id"] for l in open(os.path.join(common.VERIF, "properties.jsonl"))]
    na_reasons = json.load(open(os.path.join(common.VERIF, "harness", "not_applicable.json")))
    checks = [entry(p) for p in props if p in CHECKS and p in LEVEL_TEXT]
    claimed = {c["property_id"] for c in checks}
    na = [{"property_id": p, "reason": na_reasons.get(p, "check not built yet in this session; see DESIGN.md section 5")}
          for p in props if p not in claimed]
    m = {
        "version": 1,
        "setup_cmd": "./check setup",
        "hooks": {
            "guard": "CGSMILES_VERIF",
            "enable": "No source hooks: observation happens at the public API's return in the harness process (CGSMILES_VERIF=1 set by harness/common.py enables harness-side interposition of cgsmiles.sample.random and cgsmiles.rdkit only).",
            "baseline_off_cmd": "cd /repo && /venv/bin/python -m pytest -ra -q -p no:cacheprovider --timeout=900 --continue-on-collection-errors",
            "source_commits": [],
            "add_only": True,
        },
        "engines": [{"name": "tlc", "path": "/verif/spec", "serves_properties": sorted(claimed),
                     "kind_free_text": "TLA+ specifications checked with TLC 1.8 (exhaustive, -simulate, batch trace validation)"}],
        "checks": checks,
        "not_applicable": na,
        "notes": "See DESIGN.md. known_findings.json lists recorded defects (KNOWN-FINDING lines) and fix: commits.",
    }
    with open(os.path.join(common.VERIF, "MANIFEST.json"), "w") as fh:
        json.dump(m, fh, indent=1)
    print("MANIFEST.json:", len(checks), "checks,", len(na), "not_applicable")


if __name__ == "__main__":
    main()
