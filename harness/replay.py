"""
./check replay <file>: re-run a stored violation against the CURRENT working tree and re-validate it with TLC.
Exit 1 (with a VIOLATION line) if the stored clause still fails, 0 if it holds now, 2 if this kind of
record can only be reproduced by re-running its check (then the command to do so is printed).
"""
import json

from . import common, tlc, project, render


def run(path):
    d = json.load(open(path))
    pid, clause, rec = d["property"], d["clause"], d["record"]
    print(f"replay {path}: property={pid} clause={clause} seed={d.get('seed')} tier={d.get('tier')}")
    verdict = None
    if "record_fields" in rec and rec.get("text") and not rec.get("sampler"):
        rf = rec["record_fields"]
        obs = project.run_resolve(rec["text"], last_all_atom=rf.get("allAtom", True) or rf.get("level", 0) < 0, legacy=rf.get("legacy", True))
        lvl = rec.get("level", 0)
        step = obs["steps"][lvl] if lvl < len(obs["steps"]) else None
        from .props.resolve import slim_obs
        r2 = dict(rf)
        r2["obs"] = slim_obs(step, obs["outcome"] if step is None else "ok")
        verdict = tlc.validate("ResolveTrace", [r2])[0][0]
    elif rec.get("mode") in ("read", "mult") and rec.get("toks"):
        from .props import graph
        from .report import Check
        c = Check(pid + "-replay")
        if rec["mode"] == "read":
            recs = [graph.read_record(rec["toks"])]
        else:
            recs = graph.mult_records(c, [rec["toks"]])
        verdict = graph.validate(c, recs)[0]
    elif rec.get("mode") == "strip" and rec.get("toks"):
        from .props import frag
        r2 = frag.strip_record(rec["toks"], rec["coarse"])
        verdict = tlc.validate("FragTextTrace", [{k: r2[k] for k in frag.FIELDS}])[0][0]
    elif rec.get("mode") == "rt" and rec.get("toks"):
        from .props import writer
        r2 = writer.rt_record(rec["toks"], rec["coarse"])
        verdict = tlc.validate("FragTextTrace", [{k: r2[k] for k in writer.RT_FIELDS}])[0][0]
    if verdict is None:
        print(json.dumps({k: v for k, v in rec.items() if k not in ("toks", "events", "record_fields")}, default=str)[:1500])
        print(f"this record is reproduced by its check: VERIF_SEED={d.get('seed', 0)} ./check {pid} --tier {d.get('tier', 'quick')}")
        return 2
    print("verdict now:", json.dumps(verdict, sort_keys=True)[:2000])
    still = clause in verdict and verdict[clause] is False
    if still:
        print(f"VIOLATION property={pid} replay={path} clause={clause}")
        return 1
    print("the clause holds on the current tree")
    return 0
