"""
SamplerMC: exhaustive growth trajectories of small configurations (design invariants), each finished
trajectory forced through the real sampler with a scripted RNG (spec -> code replay).
"""
from .. import common, mc, project, sampleobs
from ..samplercfgs import CONFIGS

INV = ["InvTree", "InvComplementary", "InvOnce", "InvNeverZero", "InvTerminalClosesAtom", "InvTerminalsWithdrawn",
       "InvStopRule", "InvOpenWithinTemplate"]
CONSTS = {"quick": dict(CfgIds="IdsAll", TargetIdx=1, MaxSteps=3),
          "thorough": dict(CfgIds="IdsAll", TargetIdx=2, MaxSteps=5)}


class Divergence(Exception):
    pass


class ScriptedRandom:
    """returns the specification's choices; a choice that is not offered (or has weight 0) is a divergence"""
    def __init__(self, script):
        self.script = list(script)
        self.pos = 0

    def seed(self, a=None):
        pass

    def _next(self, pop, weights):
        if self.pos >= len(self.script):
            raise Divergence("the code draws again although the specification's trajectory is finished (stop rule)")
        want = self.script[self.pos]
        self.pos += 1
        pop = list(pop)
        if want not in pop:
            raise Divergence(f"draw {self.pos}: the specification's choice {want!r} is not offered: {pop!r}")
        if weights is not None:
            w = float(weights[pop.index(want)])
            if not w > 0:
                raise Divergence(f"draw {self.pos}: the specification's choice {want!r} has weight {w}")
        return want

    def choice(self, seq):
        return self._next(seq, None)

    def choices(self, population, weights=None, k=1):
        return [self._next(population, weights)]


def dstr(d):
    return "%s%s%d" % (d[0], d[1], d[2])


def replay(traj):
    """force one TLC trajectory through MoleculeSampler; returns None if it conforms, else a description"""
    import cgsmiles.sample as S
    from cgsmiles import MoleculeSampler
    cfg = CONFIGS[traj["kid"] - 1]
    frags = sampleobs.frag_tokens(cfg)
    names = [f[0] for f in frags]
    natoms = [sum(1 for t in f[1] if t["k"] == "A") for f in frags]
    copies = traj["copies"]
    offset = [0]
    for f in copies:
        offset.append(offset[-1] + natoms[f - 1])
    script = [] if cfg.get("start_fragment") else [names[copies[0] - 1]]
    if cfg.get("start_fragment") and names[copies[0] - 1] != cfg["start_fragment"]:
        return None      # the trajectory starts with another fragment than the one this configuration asks for
    for i, l in enumerate(traj["links"]):
        site = l["site"]
        script += [dstr(l["d"]), offset[site[0] - 1] + site[1] - 1, dstr(l["p"]),
                   (names[copies[i + 1] - 1], l["partner"][1] - 1)]
    sr = ScriptedRandom(script)
    old = S.random
    S.random = sr
    try:
        with project.quiet():
            s = MoleculeSampler.from_fragment_string(cfg["frags"], polymer_reactivities=dict(cfg["react"]),
                                                     fragment_reactivities={k: dict(v) for k, v in cfg["cond"].items()},
                                                     terminal_bonds=list(cfg["terminal"]),
                                                     fragment_masses=dict(cfg["masses"]) if cfg.get("masses") else None,
                                                     all_atom=cfg["all_atom"], seed=1)
            mol = s.sample(traj["target"] / 1000.0, start_fragment=cfg.get("start_fragment"))
    except Divergence as exc:
        return str(exc)
    except Exception as exc:
        return "exception " + type(exc).__name__ + ": " + str(exc)[:100]
    finally:
        S.random = old
    if sr.pos != len(script):
        return f"the code stopped after {sr.pos} of {len(script)} draws (stop rule)"
    ncopies = len({tuple(d["fragid"]) for _, d in mol.nodes(data=True)})
    if ncopies != len(copies):
        return f"{ncopies} copies in the result, {len(copies)} in the trajectory"
    return None


def run(check, tier):
    consts = CONSTS[tier]
    out, r = mc.run(check, "SamplerMC", "smc_" + tier, consts, INV + ["InvPositiveMass"], dedupe=lambda p: str(p),
                     properties=["WeightGrows", "Terminates"], spec="FairSpec")
    check.extra["sampler_mc_trajectories"] = len(out)
    bad = 0
    for traj in out:
        why = replay(traj)
        check.evaluations += 1
        check.count_clause("X_SpecTrajectoryReplays", why is None)
        if why is not None:
            bad += 1
            check.violation("X_SpecTrajectoryReplays", {"key": str(traj)[:300], "trajectory": traj, "why": why}, {"why": why})
    check.extra["sampler_mc_replayed"] = len(out)
