"""
C14 (and the annotation faults of C20): annotations against Annot.tla at the three sites.
"""
from .. import common, tlc, render, project, mc
from ..report import Check

INVARIANTS = ["PositionalEqKeyword", "KeywordOrderIrrelevant", "DefaultsPresent", "NumericCanonical",
              "FreeVerbatim", "OneValuePerKey"]

CONSTS = {
    ("quick", "graph"): dict(MaxEntries=3, Keys="KeysGraphQ", Values="ValsQ", DialectName='"graph"', FaultEntries="FaultsQ"),
    ("quick", "coarse"): dict(MaxEntries=2, Keys="KeysGraphQ", Values="ValsQ", DialectName='"coarse"', FaultEntries="FaultsQ"),
    ("quick", "atom"): dict(MaxEntries=3, Keys="KeysAtomQ", Values="ValsQ", DialectName='"atom"', FaultEntries="FaultsQ"),
    ("thorough", "graph"): dict(MaxEntries=3, Keys="KeysGraph", Values="ValsT", DialectName='"graph"', FaultEntries="Faults"),
    ("thorough", "coarse"): dict(MaxEntries=3, Keys="KeysGraph", Values="ValsT", DialectName='"coarse"', FaultEntries="Faults"),
    ("thorough", "atom"): dict(MaxEntries=3, Keys="KeysAtom", Values="ValsT", DialectName='"atom"', FaultEntries="Faults"),
}


def _ann(entries):
    return "".join(";" + render.render_entry(e) for e in entries)


def _copies(nodes, name, idx):
    return [n["attrs"] + ([["charge", n["raw_charge"]]] if n["raw_charge"] != "" and False else [])
            for n in nodes if n["map"] == [[name, idx]]]


def observe(site, entries, reuse, variant=0):
    ann = _ann(entries)
    if site == "graph":
        mult = "|%d" % reuse if reuse > 1 else ""
        # the annotated node is multiplied directly, or as the anchor of a multiplied branch
        base = "{[#A%s]%s[#B]}" % (ann, mult) if variant % 2 == 0 else "{[#A%s]([#B])%s[#B]}" % (ann, mult)
        text = base + ".{#A=[$]C[$],#B=[$]O}"
        o = project.run_resolve(text)
        if o["outcome"] != "ok":
            return text, {"outcome": o["outcome"], "copies": [], "coarse": []}
        # the base graph as read, and the coarse graph returned by resolve
        obs, g = project.run_read(base)
        copies = [[p for p in n["attrs"] if p[0] != "fragname"] for n in obs["nodes"] if n["name"] == "A"]
        coarse = []
        for n in o["steps"][0]["coarse"]["nodes"]:
            if n["name"] == "A":
                coarse.append(n["attrs"] + ([["charge", n["raw_charge"]]] if n["raw_charge"] != "" else []))
        return text, {"outcome": "ok", "copies": copies, "coarse": coarse}
    if site == "coarse":
        text = "{[#X]%s}.{#X=[$][#A%s][#B][$]}" % ("|%d" % reuse if reuse > 1 else "", ann)
        o = project.run_resolve(text, last_all_atom=False)
        if o["outcome"] != "ok":
            return text, {"outcome": o["outcome"], "copies": [], "coarse": []}
        fine = o["steps"][0]["fine"]["nodes"]
        copies = [n["attrs"] + ([["charge", n["raw_charge"]]] if n["raw_charge"] != "" else [])
                  for n in fine if n["map"] == [["X", 0]]]
        return text, {"outcome": "ok", "copies": copies, "coarse": []}
    variant = variant % 5
    mult = "|%d" % reuse if reuse > 1 else ""
    plain_idx = None
    if variant == 4:        # followed by bracket atoms without annotation
        text, idx, plain_idx = "{[#X]%s}.{#X=[$]C[C%s](O)C[NH3+][$]}" % (mult, ann), 1, 4
    elif variant == 3:        # an explicitly written, annotated hydrogen
        text, idx = "{[#X]%s}.{#X=[$]C([H%s])(O)[$]}" % (mult, ann), 1
    elif variant == 0:
        text, idx = "{[#X]%s}.{#X=[$]C[C%s](O)[$]}" % (mult, ann), 1
    elif variant == 1:      # a single-atom fragment
        text, idx = "{[#X]%s}.{#X=[$][C%s][$]}" % (mult, ann), 0
    else:                   # behind two-letter elements, an S-c adjacency and a ring
        text, idx = "{[#X]%s}.{#X=[$]C(Cl)Sc1ccccc1[C%s][$]}" % (mult, ann), 9
    o = project.run_resolve(text)
    if o["outcome"] != "ok":
        return text, {"outcome": o["outcome"], "copies": [], "coarse": []}
    fine = o["steps"][0]["fine"]["nodes"]
    copies = [n["attrs"] for n in fine if n["map"] == [["X", idx]]]
    obs = {"outcome": "ok", "copies": copies, "coarse": []}
    if plain_idx is not None:
        obs["plain"] = [n["attrs"] for n in fine if n["map"] == [["X", plain_idx]]]
    return text, obs


C14_CLAUSES = ["C14_Accepted", "C14_Attrs", "C14_OnEveryCopy", "C14_OnCoarseNode", "C14_Defaults", "C14_OnItsAtomOnly"]
C20_CLAUSES = ["C20_Raises", "C20_NoGraph"]


def collect(check, tier):
    records = []
    for site in ("graph", "coarse", "atom"):
        consts = CONSTS[(tier, site)]
        items, r = mc.run(check, "AnnotMC", f"{tier}_{site}", consts, INVARIANTS,
                          dedupe=lambda p: _ann(p["entries"]))
        for k, it in enumerate(items):
            reuse = 1 + (k % 3)
            # atoms: every entry sequence at every atom template (plain atom, single-atom fragment, behind two-letter
            # elements and a ring, explicit hydrogen); nodes: directly multiplied / anchor of a multiplied branch
            if tier == "quick":
                variants = [k % 3, 3 + (k // 3) % 2] if site == "atom" else [k // 3 + k]
            else:
                variants = range(5) if site == "atom" else range(2) if site == "graph" else [0]
            for variant in variants:
                text, obs = observe(site, it["entries"], reuse, variant)
                records.append({"site": site, "entries": it["entries"], "reuse": reuse, "obs": obs, "text": text})
    slim = [{k: r[k] for k in ("site", "entries", "reuse", "obs")} for r in records]
    verdicts, stats = tlc.validate("AnnotTrace", slim)
    check.add_tv(stats)
    return records, verdicts


def judge(check, records, verdicts, clauses, want_err):
    for rec, v in zip(records, verdicts):
        if not v.get("dom"):
            check.evaluations += 1
            check.skipped += 1
            continue
        is_err = v["experr"] != ""
        if is_err != want_err:
            continue
        check.evaluations += 1
        check.traces += 1
        if rec["entries"]:
            check.nontrivial.add(rec["text"])
        failed = [c for c in clauses if not v[c]]
        for c in clauses:
            check.count_clause(c, v[c])
        if failed:
            check.violation(failed[0], {"key": rec["text"], **rec}, v)
        else:
            check.sample({"text": rec["text"], "site": rec["site"], "copies": rec["obs"]["copies"][:1]})


def run_c14(tier):
    check = Check("C14", tier=tier)
    check.rule = ("every entry sequence of AnnotMC (positional/keyword forms, reserved and free keys, numeric spellings) "
                  "at three sites (base-graph node, coarse-fragment node, atomistic atom) with reuse 1-3; "
                  "non-trivial = at least one entry; distinct = distinct rendered string")
    check.exhaustive = True
    records, verdicts = collect(check, tier)
    judge(check, records, verdicts, C14_CLAUSES, want_err=False)
    return check.finish()


def run_c20_annot(check, tier):
    records, verdicts = collect(check, tier)
    judge(check, records, verdicts, C20_CLAUSES, want_err=True)
    check.extra["annotation_fault_traces"] = sum(1 for v in verdicts if v.get("dom") and v["experr"] != "")
