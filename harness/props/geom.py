"""
C18 (RDKit bridge / forward mapping) and C19 (2D layout).  Level "other": the harness measures,
TLC evaluates the predicates of GeomTrace.tla on integer-scaled measurements.
"""
import math
from fractions import Fraction

from .. import common, tlc, project
from ..report import Check

MOLS = [
    "{[#A]}.{#A=CCO}", "{[#A]}.{#A=CC(=O)[O-]}", "{[#A]}.{#A=CCC[NH3+]}", "{[#A]}.{#A=c1ccccc1}", "{[#A]}.{#A=CCC#N}",
    "{[#A][#B]}.{#A=[$]C(=O)[O-],#B=[$]CC[NH3+]}", "{[#A][#B][#A]}.{#A=[$]CC,#B=[$]O[$]}",
    "{[#A][#B]|3[#A]}.{#A=[$]C,#B=[$]COC[$]}", "{[#SC4]1[#TC5][#TC5]1}.{#SC4=Cc(c[!])c[!],#TC5=[!]ccc[!]}",
    "{[#A][#B]}.{#A=OC[!],#B=[!]CC}", "{[#SC2][#SC2][#SP1]}.{#SC2=[$]CCC[$],#SP1=[$]CCO}",
    "{[#A][#B]}.{#A=[$][C;0.5]C[O;w=0.25],#B=[$][N;w=2]C}", "{[#TC5]1[#TC5][#TC5]1}.{#TC5=[$]cc[$]}",
    "{[#A]=[#B]}.{#A=[$]CCC[$],#B=[$]CC(C)C[$]}",
    # beads whose weights add up to less than one
    "{[#A][#B][#A]}.{#A=[$]C,#B=[$][O;0.5][$]}", "{[#A][#B]}.{#A=[$][N;0.3]=[N;0.3],#B=[$]C}",
    # an explicit hydrogen residue that is not the last residue
    "{[#H][#A][#B]}.{#H=[$][H],#A=[$]C[$],#B=[$]O}", "{[#X][#Y]}.{#X=[$]c1ccccc1,#Y=[$]S(=O)(=O)C}",
    # explicit hydrogens with their own weight, zero included
    "{[#A][#B]}.{#A=[$]C[O][H;w=0],#B=[$]C[C;w=0.5]}", "{[#A]|2}.{#A=[$]C([H;0])([H;w=0.25])[C;0.5][$]}",
]


def resolved(text):
    from cgsmiles import MoleculeResolver
    with project.quiet():
        r = MoleculeResolver.from_string(text)
        return r.resolve_all()


def chem(g, iteration_order=False):
    """nodes in key order, or - for the graph handed to the bridge - in iteration order: by the index model of
    GeomTrace the node at iteration position p becomes RDKit atom p - 1, which is the key it has after the way back"""
    from ..common import ord2
    keys = list(g.nodes) if iteration_order else sorted(g.nodes)
    idx = {k: i for i, k in enumerate(keys)}
    nodes = [[str(g.nodes[k].get("element")), int(g.nodes[k].get("charge", 0) or 0), int(g.nodes[k].get("hcount", 0) or 0)] for k in keys]
    edges = sorted([min(idx[a], idx[b]), max(idx[a], idx[b]), ord2(d.get("order", 1))] for a, b, d in g.edges(data=True))
    return {"nodes": nodes, "edges": edges}


def total_h(g):
    """hydrogen count per heavy atom = explicit H neighbours + hcount; explicit H nodes are dropped"""
    import networkx as nx
    h = nx.Graph()
    for n, d in g.nodes(data=True):
        if d.get("element") != "H":
            nh = sum(1 for m in g.neighbors(n) if g.nodes[m].get("element") == "H")
            h.add_node(n, element=d.get("element"), charge=d.get("charge", 0), hcount=int(d.get("hcount", 0) or 0) + nh)
    for a, b, d in g.edges(data=True):
        if a in h and b in h:
            h.add_edge(a, b, order=d.get("order", 1))
    return h


def roundtrip_record(mol, conformer, tag):
    from cgsmiles.rdkit import networkx_to_rdkit, rdkit_to_networkx
    from rdkit.Chem import AllChem
    rec = {"mode": "roundtrip", "tag": tag, "conformer": conformer, "outcome": "ok",
           "before": chem(total_h(mol), iteration_order=True), "after": {"nodes": [], "edges": []}}
    try:
        with project.quiet():
            rd = networkx_to_rdkit(mol)
            if conformer:
                AllChem.EmbedMolecule(rd, randomSeed=7 + common.SEED)
            back = rdkit_to_networkx(rd)
        rec["after"] = chem(total_h(back))
    except Exception as exc:
        rec["outcome"] = project.outcome_of(exc)
    return rec


def embed_record(mol, tag):
    """embed_3d_via_rdkit with the RDKit molecule captured by harness-side interposition of cgsmiles.rdkit.AllChem"""
    import numpy as np
    import cgsmiles.rdkit as R
    captured = {}

    class Proxy:
        def __init__(self, real):
            self._real = real

        def __getattr__(self, name):
            return getattr(self._real, name)

        def EmbedMolecule(self, m, *a, **k):
            captured["mol"] = m
            k.setdefault("randomSeed", 11 + common.SEED)
            return self._real.EmbedMolecule(m, *a, **k)
    rec = {"mode": "embed", "tag": tag, "outcome": "ok", "nodes": [], "bond_mA": []}
    old = R.AllChem
    g = mol.copy()
    try:
        if hasattr(R, "AllChem"):
            R.AllChem = Proxy(old)
        with project.quiet():
            R.embed_3d_via_rdkit(g)
    except Exception as exc:
        rec["outcome"] = project.outcome_of(exc)
        return rec
    finally:
        R.AllChem = old
    rd = captured.get("mol")
    conf = rd.GetConformer() if rd is not None else None
    confpos = [np.array([conf.GetAtomPosition(i).x, conf.GetAtomPosition(i).y, conf.GetAtomPosition(i).z])
               for i in range(rd.GetNumAtoms())] if conf is not None else []
    for p, k in enumerate(g.nodes, start=1):
        pos = g.nodes[k].get("position")
        which = 0
        if pos is not None:
            for j, cp in enumerate(confpos):
                if np.array_equal(np.asarray(pos, dtype=float), cp):
                    which = j + 1
                    break
        rec["nodes"].append([repr(k), p, which])
    for a, b in g.edges:
        pa, pb = g.nodes[a].get("position"), g.nodes[b].get("position")
        if pa is None or pb is None:
            rec["bond_mA"].append(0)
        else:
            rec["bond_mA"].append(int(round(float(np.linalg.norm(np.asarray(pa) - np.asarray(pb))) * 1000)))
    return rec


def annotated_weights(text, mol):
    """weight of every atom AS WRITTEN in the string: the annotation of the fragment atom it instantiates (w=.. or the
    first positional value, default 1); a hydrogen added on completion has the weight of the atom it completes.
    Atoms shared by two fragments are left to the observed value."""
    from .resolve import parse_fragment_block
    try:
        frags = dict(parse_fragment_block(text.split(".", 1)[1], coarse=False))
    except Exception:
        return {}
    tpl = {}
    for name, toks in frags.items():
        ws = []
        for t in toks:
            if t["k"] != "A":
                continue
            w = 1.0
            pos = [e for e in t["a"] if e["k"] == ""]
            for e in t["a"]:
                if e["k"] == "w":
                    w = float(e["v"])
            if pos and not any(e["k"] == "w" for e in t["a"]):
                try:
                    w = float(pos[0]["v"])
                except ValueError:
                    pass
            ws.append(w)
        tpl[name] = ws
    out = {}
    for a, d in mol.nodes(data=True):
        m = d.get("mapping") or []
        if len(m) == 1 and m[0][0] in tpl and m[0][1] < len(tpl[m[0][0]]):
            out[a] = tpl[m[0][0]][m[0][1]]
    for a, d in mol.nodes(data=True):
        if a not in out and not d.get("mapping") and d.get("element") == "H":
            nb = [x for x in mol.neighbors(a) if x in out]
            if len(nb) == 1:
                out[a] = out[nb[0]]
    return out


def fmap_record(text, tag):
    import numpy as np
    from cgsmiles.coordinates import forward_map_molecule
    rec = {"mode": "fmap", "tag": tag, "outcome": "ok", "beads": [], "coeff": [], "shift_err_ppm": []}
    try:
        meta, mol = resolved(text)
        atoms = sorted(mol.nodes)
        ann = annotated_weights(text, mol)
        for b in sorted(meta.nodes):
            gr = meta.nodes[b]["graph"]
            rec["beads"].append([b, [[a, int(round(float(ann.get(a, gr.nodes[a].get("weight", 1))) * 1000))] for a in sorted(gr.nodes)]])
        # probe with unit positions: forward_map_molecule is linear in the atom positions
        for a in atoms:
            for x in atoms:
                mol.nodes[x]["position"] = np.array([1.0 if x == a else 0.0, 0.0, 0.0])
            with project.quiet():
                forward_map_molecule(meta, mol)
            for b in sorted(meta.nodes):
                c = float(meta.nodes[b]["position"][0])
                fr = Fraction(c).limit_denominator(100000)
                rec["coeff"].append([b, a, fr.numerator, fr.denominator])
        # translation covariance, measured directly
        rng = np.random.default_rng(5 + common.SEED)
        base = {x: rng.normal(size=3) for x in atoms}
        for x in atoms:
            mol.nodes[x]["position"] = base[x].copy()
        forward_map_molecule(meta, mol)
        p0 = {b: np.array(meta.nodes[b]["position"], dtype=float) for b in meta.nodes}
        shift = np.array([10.0, -3.5, 7.25])
        for x in atoms:
            mol.nodes[x]["position"] = base[x] + shift
        forward_map_molecule(meta, mol)
        for b in meta.nodes:
            err = float(np.linalg.norm(np.array(meta.nodes[b]["position"]) - p0[b] - shift))
            rec["shift_err_ppm"].append(int(round(err * 1e6)))
    except Exception as exc:
        rec["outcome"] = project.outcome_of(exc)
    return rec


C18_CLAUSES = {"roundtrip": ["C18_Converts", "C18_RoundTripChem"], "embed": ["C18_Embeds", "C18_OwnPosition", "C18_BondedClose"],
               "fmap": ["C18_Maps", "C18_BeadIsNormalisedAverage", "C18_TranslationCovariant"]}


def permuted(mol, rng):
    """same molecule, nodes inserted in a different order (iteration order != key order)"""
    import networkx as nx
    order = list(mol.nodes)
    rng.shuffle(order)
    g = nx.Graph()
    for n in order:
        g.add_node(n, **mol.nodes[n])
    for a, b, d in mol.edges(data=True):
        g.add_edge(a, b, **d)
    return g


def run_c18(tier):
    check = Check("C18", level="other", tier=tier)
    check.rule = ("15 resolved molecules (single/multi fragment, shared atoms, rings, charges, weights; hydrogens interleaved by "
                  "renumbering) x node insertion orders x with/without conformer; forward mapping probed with unit positions "
                  "(linear map => exact coefficient vectors); non-trivial = more than one fragment or permuted insertion order")
    check.extra["explanation"] = ("TLC evaluates the predicates of GeomTrace.tla (index model of the bridge: node at iteration "
                                  "position p becomes RDKit atom p-1 and must receive its coordinates; bead coefficient = w/sum(w) "
                                  "over integers; chemistry equality) on measurements made by the harness; not model checking of "
                                  "geometry.")
    rng = common.rng("c18")
    recs = []
    reps = 1 if tier == "quick" else 6
    for text in MOLS:
        try:
            meta, mol = resolved(text)
        except Exception:
            continue
        recs.append(roundtrip_record(mol, False, text))
        recs.append(roundtrip_record(mol, True, text))
        recs.append(embed_record(mol, text))
        for _ in range(reps):
            pm = permuted(mol, rng)
            recs.append(roundtrip_record(pm, True, text + " permuted"))
            recs.append(embed_record(pm, text + " permuted"))
        recs.append(fmap_record(text, text))
    verdicts, stats = tlc.validate("GeomTrace", [{k: v for k, v in r.items() if k != "tag"} for r in recs])
    check.add_tv(stats)
    for rec, v in zip(recs, verdicts):
        check.evaluations += 1
        check.traces += 1
        if "][" in rec["tag"] or "permuted" in rec["tag"] or "|" in rec["tag"]:
            check.nontrivial.add(rec["tag"] + rec["mode"] + str(rec.get("conformer")))
        cl = C18_CLAUSES[rec["mode"]]
        failed = [c for c in cl if not v[c]]
        for c in cl:
            check.count_clause(c, v[c])
        if failed:
            check.violation(failed[0], {"key": rec["tag"] + "|" + rec["mode"] + "|" + str(rec.get("conformer")), **rec}, v)
        else:
            check.sample({"molecule": rec["tag"], "mode": rec["mode"]}, limit=5)
    return check.finish()


# ----------------------------------------------------------------------------------------------
# C19
# ----------------------------------------------------------------------------------------------
ALIGN = [(1.0, 0.0), (0.0, 1.0), (1.0, 1.0)]


def layout_record(g, bond, seed, tag, align=None):
    import numpy as np
    from cgsmiles.graph_layout import vespr_layout
    rec = {"mode": "layout", "tag": tag, "outcome": "ok", "n": g.number_of_nodes(), "npos": 0, "keys_match": False,
           "finite": False, "bond_ppm": [], "mean_ppm": 0, "bond": bond, "seed": seed, "align_ppm": -1}
    if align is not None:
        rec["tag"] = tag = tag + " align_with=%s" % (align,)
    try:
        np.random.seed(seed)
        with project.quiet():
            pos = vespr_layout(g, default_bond=bond) if align is None else vespr_layout(g, default_bond=bond,
                                                                                      align_with=np.array(align))
    except Exception as exc:
        rec["outcome"] = project.outcome_of(exc)
        return rec
    rec["npos"] = len(pos)
    rec["keys_match"] = set(pos.keys()) == set(g.nodes)
    arr = [np.asarray(pos[k], dtype=float) for k in pos]
    rec["finite"] = bool(all(a.shape == (2,) and np.all(np.isfinite(a)) for a in arr))
    if rec["finite"] and rec["keys_match"]:
        ds = [float(np.linalg.norm(np.asarray(pos[a]) - np.asarray(pos[b]))) for a, b in g.edges]
        rec["bond_ppm"] = [int(d / bond * 1e6) for d in ds]
        rec["mean_ppm"] = int(round(sum(ds) / len(ds) / bond * 1e6))
        if align is not None:
            # the longest extent of the drawing is parallel to align_with: some pair of nodes at (numerically) the largest
            # distance has its connecting vector along the axis (ties between equally long pairs are all admitted)
            P = np.array(arr)
            u = np.asarray(align, dtype=float)
            u = u / np.linalg.norm(u)
            best, dmax = 10 ** 6, max(float(np.linalg.norm(P[i] - P[j])) for i in range(len(P)) for j in range(i))
            for i in range(len(P)):
                for j in range(i):
                    v = P[i] - P[j]
                    d = float(np.linalg.norm(v))
                    if d >= dmax * (1 - 1e-6) and d > 0:
                        best = min(best, int(abs(v[0] * u[1] - v[1] * u[0]) / d * 1e6))
            rec["align_ppm"] = best
    return rec


def run_c19(tier):
    import networkx as nx
    from .writer import atlas_graphs
    check = Check("C19", level="other", tier=tier)
    check.rule = ("every connected atlas graph with 2-6 nodes + chains/stars/rings/fused rings + resolved molecules with hydrogens "
                  "and E/Z marks x bond-length settings {0.5, 1, 2.7} x node relabelings (permuted ints, strings, insertion order) "
                  "x NumPy seeds, each also with the optional align_with axis (x, y, diagonal); non-trivial = more than two nodes")
    check.extra["explanation"] = ("the harness measures positions; TLC evaluates C19_AllNodes, C19_Finite, C19_NoCoincidentBond "
                                  "and C19_MeanBond (|mean - b| <= 1e-6 b) of GeomTrace.tla on integer-scaled values; TLA+ cannot "
                                  "decide floating-point geometry - it contributes the predicates only (thin, stated in DESIGN.md).")
    rng = common.rng("c19")
    graphs = []
    for g in atlas_graphs(6):
        if g.number_of_edges() >= 1:
            graphs.append((nx.Graph(g), "atlas%d-%d" % (g.number_of_nodes(), g.number_of_edges())))
    graphs += [(nx.path_graph(12), "path12"), (nx.star_graph(5), "star5"), (nx.cycle_graph(8), "ring8"),
               (nx.ladder_graph(4), "ladder4")]
    for text in MOLS[:8] + ["{[#A][#B]}.{#A=F/C=[$],#B=[$]=C/Cl}", "{[#A]}.{#A=C/C=C\\\\CC}".replace("\\\\", "\\"),
                             "{[#A]}.{#A=C1CCC/C=C\\\\CC1}".replace("\\\\", "\\"), "{[#A]}.{#A=C1CCC/C=C/CC1}"]:
        try:
            meta, mol = resolved(text)
            graphs.append((mol, text))
        except Exception:
            continue
    recs = []
    bonds = [1.0, 0.5, 2.7]
    nseeds = 1 if tier == "quick" else 4
    for i, (g, tag) in enumerate(graphs):
        for s in range(nseeds):
            b = bonds[(i + s) % 3]
            recs.append(layout_record(g, b, common.SEED * 100 + s, tag))
            # the optional alignment axis (x, y, diagonal in turn; all three for the smallest graphs)
            for a in (ALIGN if g.number_of_nodes() <= 3 else [ALIGN[(i + s) % 3]]):
                recs.append(layout_record(g, b, common.SEED * 100 + s, tag, align=a))
            if g.number_of_nodes() <= 3:      # the smallest graphs at every scale
                for b2 in bonds:
                    if b2 != b:
                        recs.append(layout_record(g, b2, common.SEED * 100 + s, tag))
            if "atlas" in tag or "path" in tag or "ring" in tag:
                keys = list(g.nodes)
                perm = keys[:]
                rng.shuffle(perm)
                strings = rng.random() < 0.4
                mapping = {k: ("n%d" % p if strings else p * 7 + 3) for k, p in zip(keys, perm)}
                order = keys[:]
                rng.shuffle(order)
                h = nx.Graph()
                for k in order:
                    h.add_node(mapping[k])
                for a, c in g.edges:
                    h.add_edge(mapping[a], mapping[c])
                recs.append(layout_record(h, b, common.SEED * 100 + s, tag + " relabelled"))
    verdicts, stats = tlc.validate("GeomTrace", [{k: v for k, v in r.items() if k not in ("tag", "bond", "seed")} for r in recs])
    check.add_tv(stats)
    cl = ["C19_Returns", "C19_AllNodes", "C19_Finite", "C19_NoCoincidentBond", "C19_MeanBond", "X_Aligned"]
    check.extra["with_align_with"] = sum(1 for r in recs if r["align_ppm"] >= 0 or "align_with" in r["tag"])
    for rec, v in zip(recs, verdicts):
        check.evaluations += 1
        check.traces += 1
        if rec["n"] > 2:
            check.nontrivial.add(rec["tag"] + str(rec["bond"]) + str(rec["seed"]))
        failed = [c for c in cl if not v[c]]
        for c in cl:
            check.count_clause(c, v[c])
        if failed:
            check.violation(failed[0], {"key": rec["tag"] + str(rec["bond"]) + str(rec["seed"]), **rec}, v)
        else:
            check.sample({"graph": rec["tag"], "bond": rec["bond"], "mean_ppm": rec["mean_ppm"]}, limit=5)
    return check.finish()
