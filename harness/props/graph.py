"""
C04 / C05 / C20 (graph part): the graph reader against CGGraph.tla.

Pipeline (DESIGN 3.1):
  1. TLC model-checks the design invariants of the grammar/denotation on CGGraphMC,
     and the same model emits every complete token string of the bounded universe;
     -simulate produces long random strings of the same grammar.
  2. every token string is rendered to text and read by the real read_cgsmiles (spec -> code);
  3. the observations (plus doc/test strings found in /repo) are validated by TLC against
     CGGraphTrace (code -> spec), one named clause vector per trace.
"""
import glob
import itertools
import os
import re

from .. import common, tlc, render, project, findings
from ..report import Check

MC_CONSTS = {
    # name: (cfg text constants)
    "quick_plain": dict(MaxLen=6, NodeToks="Nodes3", SymToks="SymQuick", RingToks="Rings3",
                        MultCounts="NoMult", MaxDepth=2, MaxOpen=2, EmitAll="FALSE"),
    "thorough_plain": dict(MaxLen=8, NodeToks="Nodes3", SymToks="SymQuick", RingToks="Rings3",
                           MultCounts="NoMult", MaxDepth=2, MaxOpen=2, EmitAll="FALSE"),
    # one node name, longer strings: ring markers inside / behind branches, several markers on one node,
    # a '.' in front of a node that opens a ring ...
    "quick_onename": dict(MaxLen=10, NodeToks="Nodes1", SymToks="SymQuick", RingToks="Rings2",
                          MultCounts="NoMult", MaxDepth=2, MaxOpen=2, EmitAll="FALSE"),
    # all five bond symbols at every position of short strings
    "quick_allsyms": dict(MaxLen=4, NodeToks="Nodes2", SymToks="SymAll", RingToks="Rings1",
                          MultCounts="NoMult", MaxDepth=1, MaxOpen=1, EmitAll="FALSE"),
    # multiplied branches three levels deep
    "quick_mult_nest3": dict(MaxLen=11, NodeToks="Nodes1", SymToks="NoSym", RingToks="NoRings",
                             MultCounts="Mult2", MaxDepth=3, MaxOpen=1, EmitAll="FALSE"),
    "quick_mult": dict(MaxLen=7, NodeToks="Nodes2", SymToks="SymQuick", RingToks="Rings1",
                       MultCounts="Mult2", MaxDepth=2, MaxOpen=1, EmitAll="FALSE"),
    # one node name, no symbols: deeper nesting and a count of 3 (third-copy and node-0 anchor defects lived here)
    "quick_mult_deep": dict(MaxLen=9, NodeToks="Nodes1", SymToks="NoSym", RingToks="NoRings",
                            MultCounts="Mult3", MaxDepth=2, MaxOpen=1, EmitAll="FALSE"),
    # nesting together with an order symbol in front of the branch multiplier ( ...))=|2 )
    "quick_mult_deepsym": dict(MaxLen=9, NodeToks="Nodes1", SymToks="SymOne", RingToks="NoRings",
                               MultCounts="Mult2", MaxDepth=2, MaxOpen=1, EmitAll="FALSE"),
    # multiplier counts with two digits
    "quick_mult_big": dict(MaxLen=6, NodeToks="Nodes1", SymToks="SymOne", RingToks="NoRings",
                           MultCounts="Mult10", MaxDepth=1, MaxOpen=1, EmitAll="FALSE"),
    "thorough_mult": dict(MaxLen=8, NodeToks="Nodes2", SymToks="SymQuick", RingToks="Rings1",
                          MultCounts="Mult13", MaxDepth=2, MaxOpen=1, EmitAll="FALSE"),
    "quick_fault": dict(MaxLen=4, NodeToks="NodesF", SymToks="SymOne", RingToks="Rings2",
                        MultCounts="NoMult", MaxDepth=1, MaxOpen=2, EmitAll="TRUE"),
    "thorough_fault": dict(MaxLen=5, NodeToks="NodesF", SymToks="SymOne", RingToks="Rings3",
                           MultCounts="NoMult", MaxDepth=2, MaxOpen=2, EmitAll="TRUE"),
    "quick_ringfault": dict(MaxLen=7, NodeToks="Nodes1", SymToks="NoSym", RingToks="Rings2",
                            MultCounts="NoMult", MaxDepth=1, MaxOpen=2, EmitAll="TRUE"),
    "thorough_ringfault": dict(MaxLen=8, NodeToks="Nodes1", SymToks="SymOne", RingToks="Rings3",
                               MultCounts="NoMult", MaxDepth=1, MaxOpen=3, EmitAll="TRUE"),
    # ring index 0 in both spellings ("0", "%00"), with an order symbol on the marker
    "quick_ring0": dict(MaxLen=7, NodeToks="Nodes1", SymToks="SymOne", RingToks="Rings01",
                        MultCounts="NoMult", MaxDepth=1, MaxOpen=2, EmitAll="FALSE"),
    # duplicate / dangling ring bonds together with an order symbol (on the marker or on the duplicated edge) and ring index 0
    "quick_dupsym": dict(MaxLen=6, NodeToks="Nodes1", SymToks="SymQuick", RingToks="Rings01",
                         MultCounts="NoMult", MaxDepth=0, MaxOpen=2, EmitAll="TRUE"),
    "thorough_dupsym": dict(MaxLen=7, NodeToks="Nodes1", SymToks="SymQuick", RingToks="Rings01",
                            MultCounts="Mult2", MaxDepth=1, MaxOpen=2, EmitAll="TRUE"),
    "sim": dict(MaxLen=40, NodeToks="Nodes4", SymToks="SymAll", RingToks="Rings4",
                MultCounts="NoMult", MaxDepth=4, MaxOpen=4, EmitAll="FALSE"),
    "sim_mult": dict(MaxLen=24, NodeToks="Nodes3", SymToks="SymAll", RingToks="Rings2",
                     MultCounts="Mult123", MaxDepth=3, MaxOpen=2, EmitAll="FALSE"),
    "sim_fault": dict(MaxLen=24, NodeToks="NodesF", SymToks="SymAll", RingToks="Rings4",
                      MultCounts="NoMult", MaxDepth=3, MaxOpen=3, EmitAll="TRUE"),
}

INVARIANTS = ["GenIsGrammar", "TypeOK", "SimpleGraph", "EdgeCount", "ExpandClean",
              "SkeletonIsDenote", "NodeOnlyKeepsOrder"]


def write_cfg(name, consts, invariants):
    d = common.scratch("cfg-")
    # TLC wants the cfg next to the module: copy the spec directory (small) into scratch
    for f in os.listdir(common.SPEC):
        if f.endswith(".tla"):
            os.symlink(os.path.join(common.SPEC, f), os.path.join(d, f))
    lines = ["SPECIFICATION Spec", "CONSTANTS"]
    for k, v in consts.items():
        if isinstance(v, str) and v not in ("TRUE", "FALSE") and not v.startswith('"'):
            lines.append(f"  {k} <- {v}")
        else:
            lines.append(f"  {k} = {v}")
    for inv in invariants:
        lines.append(f"INVARIANT {inv}")
    lines.append("CHECK_DEADLOCK FALSE")
    with open(os.path.join(d, name + ".cfg"), "w") as fh:
        fh.write("\n".join(lines) + "\n")
    return d


def mc_run(check, key, emit=True, invariants=True, simulate=None, depth=None, seed=None, timeout=1500):
    consts = MC_CONSTS[key]
    invs = (INVARIANTS if invariants else []) + (["Emit"] if emit else [])
    d = write_cfg("mc_" + key, consts, invs)
    r = tlc.run("CGGraphMC", cfg="mc_" + key, workers=common.NCPU if simulate is None else 1,
                simulate=simulate, depth=depth, seed=seed, timeout=timeout, cwd=d, xmx="6g")
    check.add_mc("CGGraphMC/" + key + ("/simulate" if simulate else ""), r, consts)
    toks = []
    seen = set()
    for tag, ints, payload in r.printed:
        if tag == "G":
            k = render.render_graph_tokens(payload["toks"])
            if k not in seen:
                seen.add(k)
                toks.append(payload)
    return toks, r


# ----------------------------------------------------------------------------------------------
# corpus from the repository itself (strings the existing tests / docs already exercise)
# ----------------------------------------------------------------------------------------------
def repo_graph_strings():
    out = []
    pats = [os.path.join(common.REPO, "cgsmiles", "tests", "*.py"),
            os.path.join(common.REPO, "docs", "source", "**", "*.rst"),
            os.path.join(common.REPO, "README.rst")]
    for pat in pats:
        for f in glob.glob(pat, recursive=True):
            try:
                txt = open(f, encoding="utf8", errors="replace").read()
            except OSError:
                continue
            for m in re.finditer(r"\{(\[#[^{}\n]*)\}", txt):
                out.append("{" + m.group(1) + "}")
    seen, uniq = set(), []
    for s in out:
        if s not in seen:
            seen.add(s)
            uniq.append(s)
    return uniq


def read_record(toks, mode="read", extra=None):
    text = render.render_graph_tokens(toks)
    obs, _ = project.run_read(text)
    rec = {"mode": mode, "toks": toks, "text": text, "obs": obs}
    if extra:
        rec.update(extra)
    return rec


def iso_witness(obsS, obsL):
    """VF2 witness (1-based positions) between two projected graphs, or []."""
    import networkx as nx
    from networkx.algorithms import isomorphism as iso

    def build(o):
        g = nx.Graph()
        for i, nd in enumerate(o["nodes"]):
            g.add_node(i, lab=(nd["name"], tuple(map(tuple, nd["attrs"]))))
        for a, b, od in o["edges"]:
            g.add_edge(o["keys"].index(a), o["keys"].index(b), order=od)
        return g
    if obsS["outcome"] != "ok" or obsL["outcome"] != "ok":
        return []
    gs, gl = build(obsS), build(obsL)
    gm = iso.GraphMatcher(gs, gl, node_match=lambda x, y: x["lab"] == y["lab"],
                          edge_match=lambda x, y: x["order"] == y["order"])
    if gm.is_isomorphic():
        return [gm.mapping[i] + 1 for i in range(len(obsS["nodes"]))]
    return []


TRACE_FIELDS = ("mode", "toks", "obs", "long", "obsL", "wit")


def validate(check, records):
    slim = [{k: r[k] for k in TRACE_FIELDS if k in r} for r in records]
    verdicts, stats = tlc.validate("CGGraphTrace", slim, cfg="CGGraphTrace")
    check.add_tv(stats)
    return verdicts


def expand_oracle(check, tok_lists):
    """Ask the specification for the longhand of each token string (CGGraph!Expand)."""
    recs = [{"mode": "expand", "toks": t} for t in tok_lists]
    verdicts, stats = tlc.validate("CGGraphTrace", recs, cfg="CGGraphTrace")
    check.add_tv(stats)
    return verdicts


def judge(check, pid, records, verdicts, clauses, nontrivial):
    for rec, v in zip(records, verdicts):
        check.evaluations += 1
        if not v.get("dom"):
            check.skipped += 1
            continue
        check.traces += 1
        if nontrivial(rec, v):
            check.nontrivial.add(rec["text"])
        failed = [c for c in clauses if c in v and not v[c]]
        for c in clauses:
            if c in v:
                check.count_clause(c, v[c])
        if failed:
            slim = {k: rec[k] for k in ("mode", "toks", "text", "obs", "long", "textL", "obsL", "wit") if k in rec}
            slim["key"] = rec["text"]
            for c in failed[:1]:
                check.violation(c, slim, v)
        else:
            check.sample({"text": rec["text"], "outcome": rec["obs"]["outcome"],
                          "clauses": {c: v[c] for c in clauses if c in v}})


# ----------------------------------------------------------------------------------------------
# C04
# ----------------------------------------------------------------------------------------------
C04_CLAUSES = ["C04_Accepted", "C04_Numbering", "C04_Names", "C04_Attrs", "C04_Edges", "C04_Orders"]


def _nontrivial_c04(rec, v):
    ks = {t["k"] for t in rec["toks"]}
    return bool(ks & {"B", "R", "(", "M"}) or any(t["a"] for t in rec["toks"])


def run_c04(tier):
    check = Check("C04", tier=tier)
    check.rule = ("every complete token string of CGGraphMC's bounded grammar (exhaustive) + TLC -simulate "
                  "strings up to 40 tokens + graph strings found in /repo tests/docs; distinct = distinct "
                  "rendered text; non-trivial = contains a bond symbol, ring marker, branch, multiplier or annotation")
    key = "quick_plain" if tier == "quick" else "thorough_plain"
    toks, r = mc_run(check, key)
    for extra in ("quick_onename", "quick_allsyms", "quick_ring0"):
        more, _ = mc_run(check, extra, invariants=False)
        toks = toks + more
    check.exhaustive = True
    check.extra["exhaustive_strings"] = len(toks)
    nsim = 300 if tier == "quick" else 3000
    sim, _ = mc_run(check, "sim", invariants=False, simulate=f"num={nsim}", depth=40, seed=common.SEED + 1)
    check.extra["simulated_strings"] = len(sim)
    records = [read_record(t["toks"]) for t in toks + sim]
    ncorp = 0
    for s in repo_graph_strings():
        try:
            tk = render.tokenize_graph(s)
        except render.Untokenizable:
            continue
        if render.render_graph_tokens(tk) != s:
            continue
        if any(t["k"] == "M" for t in tk):
            continue    # strings with multipliers are C05's business (numbering is only isomorphic)
        records.append(read_record(tk))
        ncorp += 1
    check.extra["repo_corpus_strings"] = ncorp
    verdicts = validate(check, records)
    judge(check, "C04", records, verdicts, C04_CLAUSES, _nontrivial_c04)
    return check.finish()


# ----------------------------------------------------------------------------------------------
# C05
# ----------------------------------------------------------------------------------------------
C05_CLAUSES = ["C05_SameOutcome", "C05_Iso", "C05_SameNumbering"]


def mult_records(check, tok_lists):
    longs = expand_oracle(check, tok_lists)
    records = []
    for toks, lv in zip(tok_lists, longs):
        if not lv.get("dom"):
            check.evaluations += 1
            check.skipped += 1
            continue
        long = lv["long"]
        text = render.render_graph_tokens(toks)
        textL = render.render_graph_tokens(long)
        obsS, _ = project.run_read(text)
        obsL, _ = project.run_read(textL)
        records.append({"mode": "mult", "toks": toks, "text": text, "obs": obsS, "long": long,
                        "textL": textL, "obsL": obsL, "wit": iso_witness(obsS, obsL)})
    return records


def run_c05(tier):
    check = Check("C05", tier=tier)
    check.rule = ("every complete token string with >= 1 multiplier of CGGraphMC's bounded grammar + simulated "
                  "longer ones + repo strings with '|'; each is read as written and as CGGraph!Expand longhand; "
                  "distinct = distinct shorthand text; non-trivial = multiplier on a branch, or combined with a "
                  "bond symbol / ring / annotation / nesting")
    key = "quick_mult" if tier == "quick" else "thorough_mult"
    toks, r = mc_run(check, key)
    deep, r2 = mc_run(check, "quick_mult_deep")
    nest3, r3 = mc_run(check, "quick_mult_nest3", invariants=False)
    deepsym, r4 = mc_run(check, "quick_mult_deepsym", invariants=False)
    big, r5 = mc_run(check, "quick_mult_big", invariants=False)
    toks = toks + deep + nest3 + deepsym + big
    check.exhaustive = True
    nsim = 200 if tier == "quick" else 2000
    sim, _ = mc_run(check, "sim_mult", invariants=False, simulate=f"num={nsim}", depth=24, seed=common.SEED + 2)
    lists = [t["toks"] for t in toks + sim if any(x["k"] == "M" for x in t["toks"])]
    for s in repo_graph_strings():
        if "|" not in s:
            continue
        try:
            tk = render.tokenize_graph(s)
        except render.Untokenizable:
            continue
        if render.render_graph_tokens(tk) == s:
            lists.append(tk)
    check.extra["multiplier_strings"] = len(lists)
    records = mult_records(check, lists)
    verdicts = validate(check, records)
    bad_machinery = [r for r, v in zip(records, verdicts) if v.get("dom") and not v["X_LongIsExpand"]]
    if bad_machinery:
        raise tlc.TLCError("harness longhand differs from CGGraph!Expand: " + bad_machinery[0]["text"])

    def nontrivial(rec, v):
        ks = [t["k"] for t in rec["toks"]]
        return not v.get("nodeOnly") or "B" in ks or "R" in ks or any(t["a"] for t in rec["toks"])
    judge(check, "C05", records, verdicts, C05_CLAUSES, nontrivial)
    check.extra["shorthand_equals_DenoteM"] = sum(1 for v in verdicts if v.get("dom") and v.get("X_ShortIsDenoteM"))
    return check.finish()


# ----------------------------------------------------------------------------------------------
# C20 (graph part; the resolver part lives in props/resolve.py and is merged by props/c20.py)
# ----------------------------------------------------------------------------------------------
C20_CLAUSES = ["C20_Raises", "C20_NoGraph"]


def inject_faults(toks, rng, per=4):
    """Single-fault injections into a valid token string (positions chosen by the seeded rng)."""
    out = []
    nodes = [i for i, t in enumerate(toks) if t["k"] == "N"]
    used = {t["n"] for t in toks if t["k"] == "R"}
    free = [m for m in range(1, 10) if m not in used]
    bad_anns = [[{"k": "w", "v": "ab=c", "eq": 2}], [{"k": "", "v": "1", "eq": 0}, {"k": "", "v": "1", "eq": 0}, {"k": "", "v": "2", "eq": 0}],
                [{"k": "q", "v": "abc", "eq": 1}], [{"k": "w", "v": "x1", "eq": 1}], [{"k": "", "v": "a", "eq": 0}],
                [{"k": "", "v": "1", "eq": 0}, {"k": "q", "v": "1", "eq": 1}]]
    picks = rng.sample(nodes, min(per, len(nodes)))
    for i in picks:
        # unclosed ring marker behind node i (must be directly behind the node and its markers)
        if free:
            j = i + 1
            while j < len(toks) and toks[j]["k"] == "R":
                j += 1
            if not (j < len(toks) and toks[j - 1]["k"] == "R" and toks[j - 1]["v"] == "%"):
                out.append(toks[:j] + [render.tok("R", "d", free[0])] + toks[j:])
        # annotation fault on node i
        bad = rng.choice(bad_anns)
        t2 = dict(toks[i])
        t2["a"] = list(bad)
        out.append(toks[:i] + [t2] + toks[i + 1:])
    # ring bond duplicating a chain edge: N x N  ->  N m x N m
    for i in picks:
        if free and i + 1 < len(toks) and toks[i + 1]["k"] == "N":
            m = render.tok("R", "d", free[-1])
            out.append(toks[:i + 1] + [m, toks[i + 1], m] + toks[i + 2:])
            # ... with an order symbol on the opening marker / on the duplicated edge / on the closing marker
            sym = render.tok("B", rng.choice(["=", "#", "$", "."]))
            out.append(toks[:i + 1] + [sym, m, toks[i + 1], m] + toks[i + 2:])
            out.append(toks[:i + 1] + [m, sym, toks[i + 1], m] + toks[i + 2:])
    # a dangling ring index 0 ("0" / "%00") behind the last node
    if 0 not in used and nodes and nodes[-1] == len(toks) - 1:
        out.append(toks + [render.tok("R", rng.choice(["d", "%"]), 0)])
    return out


def graph_fault_records(check, tier):
    key = "quick_fault" if tier == "quick" else "thorough_fault"
    toks, r = mc_run(check, key)
    toks2, r2 = mc_run(check, "quick_ringfault" if tier == "quick" else "thorough_ringfault")
    toks3, r3 = mc_run(check, "quick_dupsym" if tier == "quick" else "thorough_dupsym")
    toks = toks + toks2 + toks3
    nsim = 150 if tier == "quick" else 1500
    sim, _ = mc_run(check, "sim", invariants=False, simulate=f"num={nsim}", depth=30, seed=common.SEED + 3)
    rng = common.rng("c20")
    lists = [t["toks"] for t in toks]
    for t in sim:
        lists.extend(inject_faults(t["toks"], rng))
    seen, uniq = set(), []
    for tk in lists:
        s = render.render_graph_tokens(tk)
        if s not in seen:
            seen.add(s)
            uniq.append(tk)
    return [read_record(tk) for tk in uniq]


def run_c20_graph(check, tier):
    records = graph_fault_records(check, tier)
    verdicts = validate(check, records)

    def nontrivial(rec, v):
        return v.get("expected") != "ok"
    judge(check, "C20", records, verdicts, C20_CLAUSES, nontrivial)
    kinds = {}
    for rec, v in zip(records, verdicts):
        if v.get("dom") and v.get("expected") != "ok":
            k = v.get("fault") or v.get("annerr")
            kinds[k] = kinds.get(k, 0) + 1
    check.extra["graph_faults_by_kind"] = kinds


def run_c20(tier):
    check = Check("C20", tier=tier)
    check.rule = ("CGGraphMC fault mode (every complete string of the bounded grammar incl. those ending in a "
                  "dangling ring index / duplicate ring bond / faulty annotation) + single-fault injections at "
                  "seeded positions of simulated long strings; expected outcome computed by the spec "
                  "(CGGraph!Fault, Annot!BindError); non-trivial = the spec expects an error")
    run_c20_graph(check, tier)
    from . import annot
    annot.run_c20_annot(check, tier)
    try:
        from . import resolve
        if hasattr(resolve, "run_c20_resolver"):
            resolve.run_c20_resolver(check, tier)
        if hasattr(resolve, "run_c20_deep"):
            resolve.run_c20_deep(check, tier)
    except ImportError:
        pass
    return check.finish()
