"""
FragLib.tla -> code: every behaviour (sequence of read_fragments calls, with and without an existing
dictionary) is replayed into cgsmiles.read_fragments.read_fragments; the dictionaries (names in key order, which
definition each name holds) and the untouched other dictionaries are compared.
Reported as X_FragLib_* clauses in the evidence of C12 (fragment libraries).
"""
from .. import mc, project

INVARIANTS = ["NamesUnique"]
PROPERTIES = ["ExistingWin", "OthersUntouched"]
CONSTS = {"quick": dict(Names="NamesQ", Defs="DefsQ", MaxCalls=2, MaxBlock=2),
          "thorough": dict(Names="NamesQ", Defs="DefsQ", MaxCalls=3, MaxBlock=2)}
TEXT = {True: {1: "[$]C", 2: "[$]CC[$]"}, False: {1: "[$][#P]", 2: "[$][#P][#Q][>]"}}
CLAUSES = ["X_FragLib_Replayable", "X_FragLib_Contents"]


def replay(calls, all_atom):
    from cgsmiles.read_fragments import read_fragments
    dicts = []
    same = True
    for c in calls:
        block = "{" + ",".join("#%s=%s" % (n, TEXT[all_atom][d]) for n, d in c["block"]) + "}"
        with project.quiet():
            if c["target"] == 0:
                dicts.append(read_fragments(block, all_atom=all_atom))
            else:
                # whether the given dictionary is extended in place or a new one is returned is not compared:
                # the returned dictionary takes its place
                given = dicts[c["target"] - 1]
                dicts[c["target"] - 1] = read_fragments(block, all_atom=all_atom, fragment_dict=given)
    content = [[[name, len(g)] for name, g in d.items()] for d in dicts]
    return content, same


def _one(args):
    k, p = args
    all_atom = k % 2 == 0
    try:
        content, same = replay(p["calls"], all_atom)
    except Exception as exc:
        return {"X_FragLib_Replayable": False, "exc": "%s: %s" % (type(exc).__name__, str(exc)[:100])}
    exp = [[[e[0], e[1]] for e in d] for d in p["dicts"]]
    return {"X_FragLib_Replayable": True, "X_FragLib_Contents": content == exp, "got": content}


def run_fraglib(check, tier):
    from .resolve import pmap
    payloads, r = mc.run(check, "FragLib", tier, CONSTS[tier], INVARIANTS, properties=PROPERTIES)
    verdicts = pmap(_one, list(enumerate(payloads)), chunksize=256)
    for p, v in zip(payloads, verdicts):
        check.evaluations += 1
        check.traces += 1
        if len(p["calls"]) > 1:
            check.nontrivial.add("fraglib:" + repr(p["calls"]))
        failed = [c for c in CLAUSES if v.get(c) is False]
        for c in CLAUSES:
            if c in v:
                check.count_clause(c, bool(v[c]))
        if failed:
            text = "read_fragments calls " + repr([(c["block"], c["target"]) for c in p["calls"]])
            check.violation(failed[0], {"key": text, "text": text, "mode": "fraglib", "calls": p["calls"],
                                        "expected": p["dicts"]}, {k: v[k] for k in v})
    check.extra["fraglib_behaviours"] = len(payloads)
