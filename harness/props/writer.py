"""
C07 (graph writer) and C08 (fragment writer / complete strings) against Writer.tla, CGGraph.tla, FragText.tla.
"""
import itertools

from .. import common, tlc, render, project, mc
from ..report import Check

WRITER_CONSTS = {"quick": [dict(MaxN=3, Orders="Ord01234"), dict(MaxN=4, Orders="Ord12")],
                 "thorough": [dict(MaxN=3, Orders="Ord01234"), dict(MaxN=4, Orders="Ord012")]}


def nx_graph(names, edges, keys=None, insertion=None):
    import networkx as nx
    n = len(names)
    keys = keys or list(range(n))
    g = nx.Graph()
    for i in (insertion or range(n)):
        g.add_node(keys[i], fragname=names[i])
    for a, b, o in edges:
        g.add_edge(keys[a], keys[b], order=o)
    return g


def write_record(names, edges, keys=None, insertion=None, tag=""):
    from cgsmiles.write_cgsmiles import write_cgsmiles_graph
    g = nx_graph(names, edges, keys, insertion)
    rec = {"mode": "write", "G": {"names": names, "edges": [list(e) for e in edges]}, "written": True,
           "tokenizable": False, "toks": [], "obs": project.empty_obs("none"), "wit": [], "text": "", "tag": tag,
           "keys": keys, "insertion": list(insertion) if insertion else None}
    try:
        with project.quiet():
            text = write_cgsmiles_graph(g)
    except Exception as exc:
        rec["written"] = False
        rec["text"] = "exc:" + type(exc).__name__
        return rec
    rec["text"] = text
    try:
        toks = render.tokenize_graph(text)
        if render.render_graph_tokens(toks) == text:
            rec["tokenizable"], rec["toks"] = True, toks
    except render.Untokenizable:
        pass
    obs, rg = project.run_read(text)
    rec["obs"] = obs
    if obs["outcome"] == "ok":
        rec["wit"] = readback_witness(obs, names, edges)
    return rec


def readback_witness(obs, names, edges):
    import networkx as nx
    from networkx.algorithms import isomorphism as iso
    a = nx.Graph()
    for i, nd in enumerate(obs["nodes"]):
        a.add_node(i, name=nd["name"])
    for x, y, o in obs["edges"]:
        a.add_edge(obs["keys"].index(x), obs["keys"].index(y), o=o)
    b = nx.Graph()
    for i, nm in enumerate(names):
        b.add_node(i, name=nm)
    for x, y, o in edges:
        b.add_edge(x, y, o=o)
    gm = iso.GraphMatcher(a, b, node_match=lambda p, q: p["name"] == q["name"], edge_match=lambda p, q: p["o"] == q["o"])
    if gm.is_isomorphic():
        return [gm.mapping[i] + 1 for i in range(len(obs["nodes"]))]
    return []


C07_CLAUSES = ["C07_Written", "C07_InGrammar", "C07_ReaderAccepts", "C07_ReadBack", "C07_DenoteIsG"]
FIELDS = ("mode", "G", "written", "tokenizable", "toks", "obs", "wit")


def atlas_graphs(maxn):
    import networkx as nx
    from networkx.generators.atlas import graph_atlas_g
    for g in graph_atlas_g():
        if 1 <= g.number_of_nodes() <= maxn and g.number_of_nodes() > 0 and nx.is_connected(g):
            yield g


def run_c07(tier):
    check = Check("C07", tier=tier)
    check.rule = ("every connected labelled graph of Writer.tla's universe (<= 4 nodes x order assignments, emitted by TLC after "
                  "model-checking RoundTrip over every DFS choice) + every connected atlas graph <= 6 nodes with seeded order "
                  "assignments from 0-4, node relabelings (permuted keys, insertion order different from key order, repeated "
                  "names) + random larger graphs; non-trivial = has a branch or ring edge or an order != 1")
    rng = common.rng("c07")
    recs = []
    for consts in WRITER_CONSTS[tier]:
        graphs, r = mc.run(check, "Writer", f"w{consts['MaxN']}", consts, ["RoundTrip", "NoSymbolInsideBranch"],
                           dedupe=lambda p: str(sorted(map(tuple, p["edges"]))) + str(p["n"]))
        for p in graphs:
            n = p["n"]
            names = ["N%d" % i for i in range(n)]
            edges = sorted(tuple(e) for e in p["edges"])
            recs.append(write_record(names, edges, tag="mc"))
            perm = list(range(n))
            rng.shuffle(perm)
            keys = [perm[i] * 3 + 1 for i in range(n)]
            ins = list(range(n))
            rng.shuffle(ins)
            recs.append(write_record(names, edges, keys=keys, insertion=ins, tag="mc-relabel"))
    check.exhaustive = True
    reps = 1 if tier == "quick" else 6
    for g in atlas_graphs(6):
        n = g.number_of_nodes()
        for _ in range(reps):
            names = ["N%d" % i for i in range(n)] if rng.random() < 0.6 else [rng.choice(["A", "B", "PEO"]) for _ in range(n)]
            edges = sorted((min(a, b), max(a, b), rng.choice([1, 1, 1, 2, 0, 3, 4])) for a, b in g.edges)
            perm = list(range(n))
            rng.shuffle(perm)
            ins = list(range(n))
            rng.shuffle(ins)
            recs.append(write_record(names, edges, keys=perm, insertion=ins, tag="atlas"))
    import networkx as nx
    for i in range(40 if tier == "quick" else 800):
        n = rng.randint(7, 14)
        g = nx.gnm_random_graph(n, rng.randint(n - 1, n + 4), seed=rng.randint(0, 10**9))
        if not nx.is_connected(g):
            continue
        names = ["N%d" % j for j in range(n)]
        edges = sorted((min(a, b), max(a, b), rng.choice([1, 1, 2, 0, 3])) for a, b in g.edges)
        recs.append(write_record(names, edges, tag="random"))
    # dense graphs: ten and more ring markers open at the same time (%nn markers next to digit markers)
    for n in ((7, 8) if tier == "quick" else (7, 8, 9, 10)):
        for rep in range(3 if tier == "quick" else 12):
            g = nx.complete_graph(n)
            drop = rng.sample(sorted(g.edges), rng.randint(0, 3) if rep else 0)
            g.remove_edges_from(drop)
            if not nx.is_connected(g):
                continue
            names = ["N%d" % j for j in range(n)]
            edges = sorted((min(a, b), max(a, b), rng.choice([1, 1, 1, 2, 0, 3])) for a, b in g.edges)
            recs.append(write_record(names, edges, tag="dense"))
    slim = [{k: r[k] for k in FIELDS} for r in recs]
    verdicts, stats = tlc.validate("CGGraphTrace", slim)
    check.add_tv(stats)
    for rec, v in zip(recs, verdicts):
        check.evaluations += 1
        check.traces += 1
        key = rec["text"] + "|" + str(rec["G"]["edges"]) + str(rec["keys"]) + str(rec["insertion"])
        if any(o != 1 for _, _, o in rec["G"]["edges"]) or len(rec["G"]["edges"]) >= len(rec["G"]["names"]):
            check.nontrivial.add(key)
        failed = [c for c in C07_CLAUSES if not v[c]]
        for c in C07_CLAUSES:
            check.count_clause(c, v[c])
        if failed:
            check.violation(failed[0], {"key": key, **{k: rec[k] for k in ("G", "text", "keys", "insertion", "tag", "toks")},
                                        "obs": rec["obs"]}, v)
        else:
            check.sample({"graph": rec["G"], "text": rec["text"]})
    return check.finish()


# ----------------------------------------------------------------------------------------------
# C08
# ----------------------------------------------------------------------------------------------
def project_fragment(g, coarse):
    from ..common import ord2
    keys = sorted(g.nodes)
    idx = {k: i for i, k in enumerate(keys)}
    nodes = []
    for k in keys:
        a = g.nodes[k]
        if coarse:
            nodes.append([str(a.get("atomname")), 0, False, [str(x) for x in a.get("bonding", [])]])
        else:
            nodes.append([str(a.get("element")), int(a.get("charge", 0) or 0), bool(a.get("aromatic", False)),
                          [str(x) for x in a.get("bonding", [])]])
    edges = sorted([min(idx[a], idx[b]), max(idx[a], idx[b]), ord2(d.get("order", 1))] for a, b, d in g.edges(data=True))
    return {"outcome": "ok", "nodes": nodes, "edges": edges}


def graph_witness(f1, f2):
    import networkx as nx
    from networkx.algorithms import isomorphism as iso

    def build(f):
        g = nx.Graph()
        for i, nd in enumerate(f["nodes"]):
            g.add_node(i, lab=(nd[0], nd[1], nd[2], tuple(sorted(nd[3]))))
        for a, b, o in f["edges"]:
            g.add_edge(a, b, o=o)
        return g
    a, b = build(f1), build(f2)
    gm = iso.GraphMatcher(a, b, node_match=lambda x, y: x["lab"] == y["lab"], edge_match=lambda x, y: x["o"] == y["o"])
    if gm.is_isomorphic():
        return [gm.mapping[i] + 1 for i in range(len(f1["nodes"]))]
    # fall back to a structure-only match so that TLC can name what differs
    gm = iso.GraphMatcher(a, b)
    if gm.is_isomorphic():
        return [gm.mapping[i] + 1 for i in range(len(f1["nodes"]))]
    return []


def rt_record(toks, coarse):
    from cgsmiles.read_fragments import read_fragments
    from cgsmiles.write_cgsmiles import write_cgsmiles_fragments
    text = render.render_fragment_tokens(toks)
    bad = {"outcome": "none", "nodes": [], "edges": []}
    rec = {"mode": "rt", "coarse": coarse, "toks": toks, "text": text, "toks2": [], "written": False, "tokenizable": False,
           "wit": [], "f1": bad, "f2": bad, "text2": ""}
    try:
        with project.quiet():
            fd = read_fragments("{#F=" + text + "}", all_atom=not coarse)
        rec["f1"] = project_fragment(fd["F"], coarse)
    except Exception as exc:
        rec["f1"] = {"outcome": project.outcome_of(exc), "nodes": [], "edges": []}
        return rec
    try:
        with project.quiet():
            out = write_cgsmiles_fragments(fd, smiles_format=not coarse)
    except Exception as exc:
        rec["text2"] = project.outcome_of(exc)
        return rec
    rec["written"], rec["text2"] = True, out
    body = out[1:-1]
    name, _, ftxt = body.partition("=")
    try:
        t2 = render.tokenize_fragment(ftxt, coarse)
        if render.render_fragment_tokens(t2) == ftxt and name == "#F":
            rec["tokenizable"], rec["toks2"] = True, t2
    except render.Untokenizable:
        pass
    try:
        with project.quiet():
            fd2 = read_fragments(out, all_atom=not coarse)
        rec["f2"] = project_fragment(fd2["F"], coarse)
        rec["wit"] = graph_witness(rec["f1"], rec["f2"])
    except Exception as exc:
        rec["f2"] = {"outcome": project.outcome_of(exc), "nodes": [], "edges": []}
    return rec


def whole_record(text, last_all_atom=True):
    from cgsmiles import MoleculeResolver
    from cgsmiles.write_cgsmiles import write_cgsmiles
    bad = {"outcome": "none", "nodes": [], "edges": []}
    rec = {"mode": "whole", "text": text, "written": False, "f1": bad, "f2": bad, "wit": [], "text2": ""}

    def final(t):
        with project.quiet():
            r = MoleculeResolver.from_string(t, last_all_atom=last_all_atom)
            meta, mol = r.resolve_all()
        return project_fragment_final(mol, last_all_atom)
    try:
        rec["f1"] = final(text)
    except Exception as exc:
        rec["f1"] = {"outcome": project.outcome_of(exc), "nodes": [], "edges": []}
        return None      # the original does not resolve: not a C08 case
    try:
        with project.quiet():
            r = MoleculeResolver.from_string(text, last_all_atom=last_all_atom)
            text2 = write_cgsmiles(r.molecule, r.fragment_dicts, last_all_atom=last_all_atom)
    except Exception as exc:
        rec["text2"] = project.outcome_of(exc)
        return rec
    rec["written"], rec["text2"] = True, text2
    try:
        rec["f2"] = final(text2)
        rec["wit"] = graph_witness(rec["f1"], rec["f2"])
    except Exception as exc:
        rec["f2"] = {"outcome": project.outcome_of(exc), "nodes": [], "edges": [], "msg": str(exc)[:100]}
    return rec


def project_fragment_final(mol, all_atom):
    from ..common import ord2
    keys = sorted(mol.nodes)
    idx = {k: i for i, k in enumerate(keys)}
    nodes = []
    for k in keys:
        a = mol.nodes[k]
        if all_atom:
            nodes.append([str(a.get("element")), int(a.get("charge", 0) or 0), bool(a.get("aromatic", False)), []])
        else:
            nodes.append([str(a.get("atomname")), 0, False, []])
    edges = sorted([min(idx[a], idx[b]), max(idx[a], idx[b]), ord2(d.get("order", 1))] for a, b, d in mol.edges(data=True))
    return {"outcome": "ok", "nodes": nodes, "edges": edges}


C08_CLAUSES = ["C08_Written", "C08_InGrammar", "C08_SpecIso", "C08_ReadBack", "C08_ReadIso"]
C08W_CLAUSES = ["C08_WholeWritten", "C08_WholeResolves", "C08_Whole"]
RT_FIELDS = ("mode", "coarse", "toks", "toks2", "written", "tokenizable", "wit", "f1", "f2")

C08_CONSTS = {
    "quick": dict(MaxLen=4, AtomToks="AtomsW", DescToks="DescT", SymToks="SymsW", RingToks="RingsQ",
                  SlashToks="NoSlash", Coarse="FALSE", MaxDepth=1, MaxDesc=3),
    "quick_cg": dict(MaxLen=4, AtomToks="AtomsCGW", DescToks="DescQ", SymToks="SymsW", RingToks="RingsQ",
                     SlashToks="NoSlash", Coarse="TRUE", MaxDepth=1, MaxDesc=2),
    "thorough": dict(MaxLen=5, AtomToks="AtomsW", DescToks="DescT", SymToks="SymsW", RingToks="RingsQ",
                     SlashToks="NoSlash", Coarse="FALSE", MaxDepth=1, MaxDesc=3),
    "thorough_cg": dict(MaxLen=6, AtomToks="AtomsCGW", DescToks="DescT", SymToks="SymsW", RingToks="RingsQ",
                        SlashToks="NoSlash", Coarse="TRUE", MaxDepth=2, MaxDesc=3),
    "sim": dict(MaxLen=24, AtomToks="AtomsW", DescToks="DescT", SymToks="SymsW", RingToks="RingsT",
                SlashToks="NoSlash", Coarse="FALSE", MaxDepth=3, MaxDesc=5),
}


# hand-written fragment texts beyond the bounded universes: hetero-aromatic rings and thioethers (a bare atom directly
# followed by a lower-case atom: Cn, Sc, Sn, Cs ...), nodes of coarse fragments that open or close several rings with
# and without an order symbol, markers of both forms
EXTRA_FRAGMENTS = [
    ("CSc1ccccc1[$]", False), ("Cn1cccc1[>]", False), ("[$]CSc1ccc([$])cc1", False), ("Cn1ccnc1[<]C", False),
    ("[<]CSc1ccccc1C[>]", False), ("Cc1ccc(cc1)Sc1ccccc1[$]", False), ("CCn1cccc1C[$]=[$]", False),
    ("OCc1ccsc1[$a]", False), ("[$]Cc1ccoc1C[$]", False), ("Cn1cc([$])cn1", False),
    ("[#A]=12[#B][#C]1[#D]2[$]", True), ("[#A]1=2[#B][#C]1[#D]2[>]", True), ("[$][#A].12[#B][#B]1[#B]2", True),
    ("[#A]=1.2[#B][#C]2[#D]1[<]", True), ("[#A]12[#B][#C]=1[#D]2[$]", True), ("[>][#A]=1[#B]2[#C]1[#D][#A]2", True),
    ("[#A]=%10%11[#B][#C]%10[#D]%11[$]", True), ("[#A]#12=3[#B][#C]1[#D]2[#E]3[$]", True),
]


def run_c08(tier):
    from . import frag, resolve
    check = Check("C08", tier=tier)
    check.rule = ("every complete fragment token string of FragTextMC (atomistic and coarse, 0-3 descriptors per atom of all four "
                  "kinds with orders 0-3) -> read_fragments -> write_cgsmiles_fragments -> text'; TLC compares FragText!DenoteF of "
                  "both token strings and the implementation's own two graphs under a witness; plus complete multi-level strings "
                  "(repository strings and the layered corpus) re-written from a resolver's inputs and resolved again; "
                  "non-trivial = at least one descriptor / more than one level")
    items = []
    frag.CONSTS.update({"c08_" + k: v for k, v in C08_CONSTS.items()})
    for key in (["quick", "quick_cg"] if tier == "quick" else ["thorough", "thorough_cg"]):
        t, r = frag.frag_mc(check, "c08_" + key)
        items += t
    check.exhaustive = True
    t, r = frag.frag_mc(check, "c08_sim", simulate="num=%d" % (100 if tier == "quick" else 1500), depth=24, seed=common.SEED + 21)
    items += t
    items += [(render.tokenize_fragment(txt, coarse), coarse) for txt, coarse in EXTRA_FRAGMENTS]
    recs = resolve.pmap(_rt_one, items)
    slim = [{k: r[k] for k in RT_FIELDS} for r in recs]
    verdicts, stats = tlc.validate("FragTextTrace", slim)
    check.add_tv(stats)
    for rec, v in zip(recs, verdicts):
        check.evaluations += 1
        if not v.get("dom") or rec["f1"]["outcome"] != "ok":
            check.skipped += 1
            continue
        check.traces += 1
        if v.get("ndesc", 0) > 0:
            check.nontrivial.add(rec["text"])
        failed = [c for c in C08_CLAUSES if not v[c]]
        for c in C08_CLAUSES:
            check.count_clause(c, v[c])
        if failed:
            check.violation(failed[0], {"key": rec["text"], **{k: rec[k] for k in ("mode", "coarse", "text", "text2", "toks", "f1", "f2")}}, v)
        else:
            check.sample({"text": rec["text"], "rewritten": rec["text2"]})
    # complete strings
    texts = [(s, "[#" not in s.split(".{")[-1]) for s in resolve.repo_full_strings()]
    from .. import molgen
    rng = common.rng("c08")
    mols = [(smi, molgen.read_reference(smi)) for smi in molgen.CATALOGUE]
    for smi, g in mols:
        if g.number_of_nodes() < 3:
            continue
        for _ in range(1 if tier == "quick" else 6):
            lay = molgen.layered_config(g, rng, rng.randint(0, 2))
            if lay is None:
                continue
            atom = lay["atomistic"]
            blocks = [resolve.frag_block_text(f) for f in lay["coarse_levels"]] + [resolve.frag_block_text(atom["frags"])]
            texts.append((render.render_graph_tokens(lay["top"]) + "." + ".".join(blocks), True))
    wrecs = [w for w in resolve.pmap(_whole_one, texts) if w is not None]
    wslim = [{k: r[k] for k in ("mode", "written", "f1", "f2", "wit")} for r in wrecs]
    wverd, stats = tlc.validate("FragTextTrace", wslim)
    check.add_tv(stats)
    for rec, v in zip(wrecs, wverd):
        check.evaluations += 1
        check.traces += 1
        if rec["text"].count(".{") >= 2:
            check.nontrivial.add(rec["text"])
        failed = [c for c in C08W_CLAUSES if not v[c]]
        for c in C08W_CLAUSES:
            check.count_clause(c, v[c])
        if failed:
            check.violation(failed[0], {"key": rec["text"], "mode": "whole", "text": rec["text"], "text2": rec["text2"],
                                        "nlevels": rec["text"].count(".{"), "f2": {"outcome": rec["f2"]["outcome"]}}, v)
    check.extra["complete_strings"] = len(wrecs)
    return check.finish()


def _rt_one(item):
    return rt_record(item[0], item[1])


def _whole_one(item):
    return whole_record(item[0], item[1])
