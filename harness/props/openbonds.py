"""
OpenBonds.tla -> code: every state of the open-bond workbench (a molecule as the sampler sees it: nodes in iteration
order, each with its list of still open descriptors; built by AddNode / Consume steps) is handed to
cgsmiles.cgsmiles_utils.find_open_bonds for every set of target nodes, and every line of the complementarity table
(descriptor x eligible list) to find_complementary_bonding_descriptor; dictionaries (keys in order, node lists with
multiplicity) and result lists / rejection are compared with what the specification computes.
Reported as X_OpenBonds_* clauses in the evidence of C16 (the sampler's bookkeeping).
"""
from .. import mc, project

INVARIANTS = ["Partition", "Monotone", "ComplSound", "EmitCompl"]
PROPERTIES = ["ConsumeOne"]
CONSTS = {"quick": dict(Descs="DescsMol", CDescs="DescsQ", MaxNodes=3, MaxPerNode=2, MaxSteps=4),
          "thorough": dict(Descs="DescsMol", CDescs="DescsQ", MaxNodes=4, MaxPerNode=2, MaxSteps=6)}
CLAUSES = ["X_OpenBonds_Replayable", "X_OpenBonds_Dict", "X_OpenBonds_DefaultTargets", "X_OpenBonds_Complementary"]


def text(d):
    return "%s%s%s" % (d[0], d[1], d[2])


def _mol(p):
    k, p = p
    import networkx as nx
    from cgsmiles.cgsmiles_utils import find_open_bonds
    g = nx.Graph()
    for i, l in enumerate(p["mol"]):
        # a node without open descriptors either carries an empty list or no 'bonding' attribute at all
        if l or k % 2 == 0:
            g.add_node(i, bonding=[text(d) for d in l])
        else:
            g.add_node(i)
        if i:
            g.add_edge(i - 1, i, order=1)
    out = {"X_OpenBonds_Replayable": True, "X_OpenBonds_Dict": True, "X_OpenBonds_DefaultTargets": True}
    try:
        for v in p["views"]:
            tg = [n - 1 for n in v["targets"]]
            exp = [[text(e[0]), [n - 1 for n in e[1]]] for e in v["open"]]
            with project.quiet():
                got = find_open_bonds(g, target_nodes=tg)
            got = [[key, list(nodes)] for key, nodes in got.items()]
            if got != exp:
                out["X_OpenBonds_Dict"] = False
                out["got"] = got
                out["expected"] = exp
                out["targets"] = tg
            if len(tg) == len(p["mol"]):
                with project.quiet():
                    dflt = find_open_bonds(g)
                if [[key, list(nodes)] for key, nodes in dflt.items()] != exp:
                    out["X_OpenBonds_DefaultTargets"] = False
                    out["got_default"] = [[key, list(nodes)] for key, nodes in dflt.items()]
        # the view is read-only
        left = [list(g.nodes[i].get("bonding", [])) for i in range(len(p["mol"]))]
        if left != [[text(d) for d in l] for l in p["mol"]]:
            out["X_OpenBonds_Dict"] = False
            out["got"] = {"molecule changed": left}
    except Exception as exc:
        return {"X_OpenBonds_Replayable": False, "exc": "%s: %s" % (type(exc).__name__, str(exc)[:100])}
    return out


def _compl(p):
    from cgsmiles.cgsmiles_utils import find_complementary_bonding_descriptor
    d, E, res = text(p["d"]), [text(e) for e in p["E"]], p["res"]
    given = list(E)
    try:
        with project.quiet():
            got = find_complementary_bonding_descriptor(d, E)
        got = {"ok": True, "out": list(got)}
    except Exception as exc:       # the class of the rejection (IOError today) is not compared
        got = {"ok": False, "out": [], "exc": type(exc).__name__}
    exp = {"ok": bool(res["ok"]), "out": [text(e) for e in res["out"]]}
    ok = got["ok"] == exp["ok"] and got["out"] == exp["out"] and E == given
    return {"X_OpenBonds_Complementary": ok, "got": got, "expected": exp}


def run_openbonds(check, tier):
    from .resolve import pmap
    payloads, r = mc.run(check, "OpenBonds", tier, CONSTS[tier], INVARIANTS, properties=PROPERTIES,
                         dedupe=lambda p: repr(p["mol"]))
    table = [pl for t, ints, pl in r.printed if t == "K"]
    seen, rows = set(), []
    for pl in table:
        k = repr((pl["d"], pl["E"]))
        if k not in seen:
            seen.add(k)
            rows.append(pl)
    verdicts = pmap(_mol, list(enumerate(payloads)), chunksize=256)
    for p, v in zip(payloads, verdicts):
        check.evaluations += 1
        check.traces += 1
        if sum(len(l) for l in p["mol"]) > 1:
            check.nontrivial.add("openbonds:" + repr(p["mol"]))
        failed = [c for c in CLAUSES if v.get(c) is False]
        for c in CLAUSES:
            if c in v:
                check.count_clause(c, bool(v[c]))
        if failed:
            txt = "find_open_bonds on " + repr([[text(d) for d in l] for l in p["mol"]])
            check.violation(failed[0], {"key": txt, "text": txt, "mode": "openbonds", "mol": p["mol"], "views": p["views"]},
                            {k: v[k] for k in v})
    cverd = pmap(_compl, rows, chunksize=256)
    for p, v in zip(rows, cverd):
        check.evaluations += 1
        check.traces += 1
        if len(p["E"]) > 1:
            check.nontrivial.add("compl:" + repr((p["d"], p["E"])))
        check.count_clause("X_OpenBonds_Complementary", bool(v["X_OpenBonds_Complementary"]))
        if not v["X_OpenBonds_Complementary"]:
            txt = "find_complementary_bonding_descriptor(%r, %r)" % (text(p["d"]), [text(e) for e in p["E"]])
            check.violation("X_OpenBonds_Complementary", {"key": txt, "text": txt, "mode": "openbonds_compl", "d": p["d"], "E": p["E"],
                                                          "res": p["res"]}, v)
    check.extra["openbonds_states"] = len(payloads)
    check.extra["openbonds_compl_rows"] = len(rows)
