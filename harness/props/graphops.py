"""
GraphOps.tla -> code: every behaviour of the graph workbench (merge_graphs, sort_nodes_by_attr,
annotate_fragments, set_atom_names_atomistic, the resolver's squash_atoms, bonds between copies) is
replayed into the real functions; the graph and the value returned by the last call are compared
with the specification's state.  Reported as X_GraphOps_* clauses in the evidence of C12.
"""
import copy

from .. import common, mc
from ..report import Check  # noqa: F401  (type reference only)

INVARIANTS = ["KeysUnique", "EdgesOnNodes", "ReferencesLive", "SortCanonical", "SortIdempotent",
              "MergeKeepsCanonical", "AnnotateCovers", "BlocksContiguous"]
CONSTS = {"quick": dict(Templates="TplQ", MaxOps=5, MaxNodes=6, MaxMerges=3),
          "thorough": dict(Templates="TplT", MaxOps=6, MaxNodes=6, MaxMerges=3)}

# must mirror TplQ / TplT of GraphOps.tla: (elements, ez pairs by local key, edges)
TEMPLATES = [
    (["C"], [[]], []),
    (["C", "O"], [[], []], [(0, 1, 1)]),
    (["F", "C", "C"], [[0, 1], [], [2, 1]], [(0, 1, 1), (1, 2, 2)]),
    (["O", "H", "C"], [[], [], []], [(0, 1, 1), (0, 2, 1)]),
    (["C", "C", "N"], [[], [], []], [(0, 1, 1), (1, 2, 1), (0, 2, 1)]),
]
CLAUSES = ["X_GraphOps_Replayable", "X_GraphOps_Nodes", "X_GraphOps_Edges", "X_GraphOps_Returned"]


def template_graph(t):
    import networkx as nx
    els, ez, edges = TEMPLATES[t - 1]
    g = nx.Graph()
    for i, el in enumerate(els):
        attrs = {"element": el, "fragid": 0, "fragname": "T%d" % t, "mapping": [("T%d" % t, i)]}
        if ez[i]:
            attrs["ez_isomer_atoms"] = tuple(ez[i])
        g.add_node(i, **attrs)
    for a, b, o in edges:
        g.add_edge(a, b, order=o)
    return g


def project(g):
    nodes = [{"key": n, "fid": list(g.nodes[n].get("fragid", [])), "el": g.nodes[n].get("element"),
              "ez": list(g.nodes[n].get("ez_isomer_atoms", []))} for n in g.nodes]
    edges = sorted([min(a, b), max(a, b), int(d.get("order", -1))] for a, b, d in g.edges(data=True))
    return nodes, edges


def replay(ops):
    """-> (graph, returned value of the last call in the spec's shape)"""
    import networkx as nx
    from cgsmiles.graph_utils import merge_graphs, sort_nodes_by_attr, annotate_fragments, set_atom_names_atomistic
    from cgsmiles.resolve import MoleculeResolver
    g = nx.Graph()
    ret = {"kind": "none", "v": []}
    for k, op in enumerate(ops):
        name = op["op"]
        ret = {"kind": "none", "v": []}
        if name == "merge":
            tpl = template_graph(op["a"])
            # the documented keyword: the largest key, when the caller knows it (every other call)
            if len(g) and k % 2:
                corr = merge_graphs(g, tpl, max_node=max(g.nodes))
            else:
                corr = merge_graphs(g, tpl)
            ret = {"kind": "corr", "v": [corr[i] for i in range(len(tpl))]}
        elif name == "bond":
            g.add_edge(op["a"], op["b"], order=op["c"], bonding=("$1", "$1"))
        elif name == "squash":
            # the resolver's own squash: a '!' edge from the kept node to the removed one
            g.add_edge(op["a"], op["b"], order=1, bonding=("!1", "!1"))
            r = MoleculeResolver.__new__(MoleculeResolver)
            r.molecule = g
            r.squash_atoms()
            g = r.molecule
        elif name == "sort":
            g = sort_nodes_by_attr(g, sort_attr="fragid")
        elif name == "annotate":
            meta = nx.Graph()
            meta.add_nodes_from(sorted({f for n in g.nodes for f in g.nodes[n]["fragid"]}))
            meta = annotate_fragments(meta, g)
            ret = {"kind": "meta", "v": {str(m): {"nodes": sorted(meta.nodes[m]["graph"].nodes),
                                                "edges": sorted([min(a, b), max(a, b)] for a, b in meta.nodes[m]["graph"].edges)}
                                         for m in meta.nodes}}
        elif name == "names":
            h1 = copy.deepcopy(g)
            set_atom_names_atomistic(h1)
            meta = nx.Graph()
            meta.add_nodes_from(sorted({f for n in g.nodes for f in g.nodes[n]["fragid"]}))
            h2 = copy.deepcopy(g)
            meta = annotate_fragments(meta, h2)
            set_atom_names_atomistic(h2, meta)
            n1 = {str(n): h1.nodes[n].get("atomname") for n in h1.nodes}
            n2 = {str(n): h2.nodes[n].get("atomname") for n in h2.nodes}
            ret = {"kind": "names", "v": n1 if n1 == n2 else {"mismatch": [n1, n2]}}
        else:
            raise ValueError(name)
    return g, ret


def _expected_ret(out):
    kind = out["kind"]
    v = out["v"]
    if kind == "corr":
        return {"kind": kind, "v": list(v)}
    if kind == "meta":
        items = v.items() if isinstance(v, dict) else enumerate(v, start=0)
        return {"kind": kind, "v": {str(f): {"nodes": sorted(x["nodes"]), "edges": sorted(sorted(e) for e in x["edges"])}
                                    for f, x in items}}
    if kind == "names":
        items = v.items() if isinstance(v, dict) else enumerate(v, start=0)
        return {"kind": kind, "v": {str(k): "%s%d" % (x[0], x[1]) for k, x in items}}
    return {"kind": "none", "v": []}


def _one(p):
    try:
        g, ret = replay(p["ops"])
    except Exception as exc:      # the specification says every behaviour is executable
        return {"X_GraphOps_Replayable": False, "exc": "%s: %s" % (type(exc).__name__, str(exc)[:100])}
    nodes, edges = project(g)
    exp_nodes = [{"key": n["key"], "fid": list(n["fid"]), "el": n["el"], "ez": list(n["ez"])} for n in p["nodes"]]
    exp_edges = sorted([min(e[0], e[1]), max(e[0], e[1]), e[2]] for e in p["edges"])
    return {"X_GraphOps_Replayable": True,
            "X_GraphOps_Nodes": nodes == exp_nodes,
            "X_GraphOps_Edges": edges == exp_edges,
            "X_GraphOps_Returned": ret == _expected_ret(p["out"]),
            "got": {"nodes": nodes, "edges": edges, "ret": ret}}


def run_graphops(check, tier):
    from .resolve import pmap
    payloads, r = mc.run(check, "GraphOps", tier, CONSTS[tier], INVARIANTS)
    verdicts = pmap(_one, payloads, chunksize=256)
    ops_seen = {}
    for p, v in zip(payloads, verdicts):
        check.evaluations += 1
        check.traces += 1
        if len(p["ops"]) > 1:
            check.nontrivial.add("graphops:" + repr([(o["op"], o["a"], o["b"], o["c"]) for o in p["ops"]]))
        for o in p["ops"][-1:]:
            ops_seen[o["op"]] = ops_seen.get(o["op"], 0) + 1
        failed = [c for c in CLAUSES if v.get(c) is False]
        for c in CLAUSES:
            if c in v:
                check.count_clause(c, bool(v[c]))
        if failed:
            text = "graphops " + " ; ".join("%s(%s,%s,%s)" % (o["op"], o["a"], o["b"], o["c"]) for o in p["ops"])
            check.violation(failed[0], {"key": text, "text": text, "mode": "graphops", "ops": p["ops"],
                                        "expected": {"nodes": p["nodes"], "edges": p["edges"], "out": p["out"]}},
                            {k: v[k] for k in v})
    check.extra["graphops_behaviours"] = len(payloads)
    check.extra["graphops_last_action_counts"] = ops_seen
