"""
C16 / C17 (and the sampler part of C09): MoleculeSampler against Sampler.tla.
"""
import json
import os
import subprocess
import sys

from .. import common, tlc, sampleobs, mc
from ..report import Check
from ..samplercfgs import CONFIGS
from . import resolve

C16_STEP = {"X_StartFragmentHonoured", "C16_Once", "C16_Complementary", "C16_BondOrder", "C16_PartnerOnFragment", "C16_Tree", "C16_NeverZero", "X_Unreplayable"}
C17_ALL = {"C17_WeightBelowTarget", "C17_NeverZeroSite", "C17_NeverZeroPartner", "C17_ReachesTarget", "C17_StopRule",
           "C17_TerminalBookkeeping", "C17_TerminalClosesAtom", "C17_TerminalsWithdrawn", "C17_MassTable", "X_Unreplayable"}
C16_RES = ["C02_Records", "C02_Graph", "C02_Cover", "C02_Copy", "C12_Keys", "C12_Contiguous", "C12_AtomNames",
           "C09_Complete", "C09_HDegree", "C09_HInherits"]


def corpus(tier):
    nseeds = 6 if tier == "quick" else 120
    out = []
    for cfg in CONFIGS:
        for t in cfg["targets"]:
            for s in range(min(nseeds, cfg.get("seeds", nseeds))):
                out.append((cfg, common.SEED * 1000 + s, t))
    return out


DEAD = []


def judge_dead_ends(check):
    """runs that raised instead of returning are outside C16/C17; the specification still has to explain the error"""
    if not DEAD:
        return
    slim = [{k: r[k] for k in ("K", "start", "want_start", "events", "final_open", "draws", "tree_ok", "dead")} for r in DEAD]
    verdicts, stats = tlc.validate("SamplerTrace", slim)
    check.add_tv(stats)
    for rec, v in zip(DEAD, verdicts):
        ok = "X_DeadEndExplained" not in v["failed"] and "X_Unreplayable" not in v["failed"]
        check.count_clause("X_DeadEndExplained", ok)
        if not ok:
            check.violation("X_DeadEndExplained", {"key": "dead:%s/%s/%s" % (rec["cfg"], rec["seed"], rec["target"]),
                                                   "dead": rec["dead"], "events": rec["events"], "cfg": rec["cfg"]}, v)
    check.extra["dead_ends_explained"] = sum(1 for v in verdicts if "X_DeadEndExplained" not in v["failed"])


def observe_all(check, tier):
    lr = sampleobs.install()
    check.extra["rng_interposed"] = lr is not None
    recs, rrecs, dead = [], [], 0
    DEAD.clear()
    for cfg, seed, target in corpus(tier):
        rec, rrec = sampleobs.observe(cfg, seed, target, lr)
        if rec is None:
            dead += 1
            if rrec.get("dead_record"):
                DEAD.append(rrec["dead_record"])
            continue
        recs.append(rec)
        # very long chains are judged as growth processes only (the resolver-style clauses are quadratic in the copies)
        if not cfg.get("growth_only"):
            rrecs.append(rrec)
    check.extra["dead_ends_skipped"] = dead
    check.skipped += dead
    return recs, rrecs


def validate_sampler(check, recs):
    slim = [{k: r[k] for k in ("K", "start", "want_start", "events", "final_open", "draws", "tree_ok")} for r in recs]
    verdicts, stats = tlc.validate("SamplerTrace", slim)
    check.add_tv(stats)
    return verdicts


def judge_sampler(check, recs, verdicts, wanted):
    for rec, v in zip(recs, verdicts):
        check.evaluations += 1
        check.traces += 1
        key = "%s/%s/%s" % (rec["cfg"], rec["seed"], rec["target"])
        if len(rec["events"]) >= 2:
            check.nontrivial.add(key)
        failed = sorted(set(v["failed"]) & wanted)
        for c in sorted(wanted):
            check.count_clause(c, c not in v["failed"])
        if failed:
            check.violation(failed[0], {"key": key, "cfg": rec["cfg"], "seed": rec["seed"], "target": rec["target"],
                                        "events": rec["events"], "final_open": rec["final_open"], "tree_ok": rec["tree_ok"],
                                        "draws": rec["draws"][:3]}, v)
        else:
            check.sample({"config": rec["cfg"], "seed": rec["seed"], "target": rec["target"], "growth_steps": len(rec["events"])}, limit=5)


def judge_resolve_like(check, pid, rrecs, clauses, only_all_atom=False):
    verdicts = resolve.validate_with(check, rrecs)
    for rec, v in zip(rrecs, verdicts):
        if not v.get("dom") or not v.get("checked"):
            check.skipped += 1
            continue
        if only_all_atom and not rec["allAtom"]:
            continue
        check.evaluations += 1
        check.traces += 1
        failed = [c for c in clauses if c in v and v[c] is False]
        for c in clauses:
            if c in v:
                check.count_clause(c, bool(v[c]))
        if failed:
            check.violation(failed[0], {"key": rec["text"], "text": rec["text"], "sampler": True,
                                        "obs": {"outcome": "ok"}, "record_fields": {"frags": rec["frags"]}}, v)


def run_c16(tier):
    check = Check("C16", tier=tier)
    check.rule = ("10 sampler configurations (homo/co/blocky polymers, brush with terminals, two terminal kinds, mixed bond orders for "
                  "'$' and '>'/'<', coarse fragments with masses) x target weights x seeds; every returned molecule is decomposed "
                  "into growth events in membership order and replayed through Sampler.tla (one TLC state per event), and seen as "
                  "a resolved molecule (copies = coarse nodes) for the copy/numbering/valence clauses; SamplerMC explores all "
                  "growth trajectories of small configurations; plus every state of OpenBonds.tla (find_open_bonds on every target set) and its "
                  "complementarity table (find_complementary_bonding_descriptor) replayed into cgsmiles_utils (X_OpenBonds_*); "
                  "non-trivial = at least two growth steps")
    run_sampler_mc(check, tier)
    recs, rrecs = observe_all(check, tier)
    verdicts = validate_sampler(check, recs)
    judge_sampler(check, recs, verdicts, C16_STEP)
    judge_resolve_like(check, "C16", rrecs, C16_RES)
    # beyond the listed clauses: the open-bond bookkeeping the sampler is built on, spec -> code (OpenBonds.tla)
    from . import openbonds
    openbonds.run_openbonds(check, tier)
    return check.finish()


def seed_histories(check, tier):
    """construct-and-sample histories in fresh processes under several hash seeds"""
    idx = {c["name"]: i for i, c in enumerate(CONFIGS)}
    rng = common.rng("c17seed")
    jobs = [(idx[c["name"]], s, c["targets"][0]) for c in CONFIGS for s in (1, 2)]
    hists = []
    for _ in range(4 if tier == "quick" else 24):
        h = [rng.choice(jobs) for _ in range(6)]
        hists.append(h + h[:2])          # repeats inside one process
    events = []
    for hs in ((0, 1, 2, 3, 5, "random") if tier == "quick" else tuple(range(0, 12)) + ("random",)):
        env = dict(os.environ)
        env["PYTHONHASHSEED"] = str(hs)
        env["PYTHONPATH"] = common.VERIF
        p = subprocess.run([sys.executable, "-m", "harness.sampleworker"], input=json.dumps(hists), capture_output=True,
                           text=True, env=env, cwd=common.VERIF, timeout=1800)
        if p.returncode != 0:
            raise tlc.TLCError("sample worker failed: " + p.stderr[-1500:])
        for h in json.loads(p.stdout):
            for e in h:
                e["proc"] = "hashseed=%s" % hs
                events.append(e)
    verdicts, stats = tlc.validate("SeedTrace", [{"events": events}])
    check.add_tv(stats)
    v = verdicts[0]
    check.evaluations += len(events)
    check.traces += 1
    check.count_clause("C17_Seed", v["C17_Seed"])
    check.extra["seed_history_events"] = len(events)
    check.extra["seed_keys"] = v["keys"]
    if not v["C17_Seed"]:
        check.violation("C17_Seed", {"key": "seed-histories", "badkeys": v["badkeys"],
                                     "events": [e for e in events if e["key"] in v["badkeys"]][:20]}, v)


def run_c17(tier):
    check = Check("C17", tier=tier)
    check.rule = ("the C16 corpus with the sampler's RNG interposed in the harness process: at every draw the offered population and "
                  "the positivity of its weights must equal the enabled set of Sampler.tla (never-zero site / partner), leftover "
                  "descriptors must equal the specification's open descriptors (terminal bookkeeping), stop rule, mass table vs. "
                  "Chem.tla; construct-and-sample histories in fresh processes under several PYTHONHASHSEEDs (seed clause); "
                  "non-trivial = at least two growth steps")
    run_sampler_mc(check, tier)
    recs, rrecs = observe_all(check, tier)
    verdicts = validate_sampler(check, recs)
    judge_sampler(check, recs, verdicts, C17_ALL)
    judge_dead_ends(check)
    seed_histories(check, tier)
    return check.finish()


def c09_records(check, tier):
    """sampler outputs for C09 (called from resolve.run_c09)"""
    recs, rrecs = observe_all(check, tier)
    judge_resolve_like(check, "C09", rrecs, ["C09_Complete", "C09_HDegree", "C09_HInherits"], only_all_atom=True)


def run_sampler_mc(check, tier):
    try:
        from . import samplermc
    except ImportError:
        return
    samplermc.run(check, tier)
