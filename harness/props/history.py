"""
Call histories of the resolver (C06 drivers, C12 function-of-input / library untouched):
ResolverAPI.tla enumerates histories, histworker replays them in fresh processes,
ResolverAPITrace.tla validates them.
"""
import json
import os
import subprocess
import sys

from .. import common, tlc, mc

INPUTS = {
    1: {"variants": ["{[#X][#Y]}.{#X=[#P][#Q][>],#Y=[<][#R]}.{#P=[$]CC[$],#Q=[$]O[$],#R=[$]N[$]C}",
                     "{[#X][#Y]}.{#Y=[<][#R],#X=[#P][#Q][>]}.{#R=[$]N[$]C,#Q=[$]O[$],#P=[$]CC[$]}"],
        "levels": 2, "all_atom": True},
    2: {"variants": ["{[#A][#B]|2[#A]}.{#A=OC[!],#B=[!]CC[!]}",
                     "{[#A][#B]|2[#A]}.{#B=[!]CC[!],#A=OC[!]}"],
        "levels": 1, "all_atom": True},
    3: {"variants": ["{[#T]1[#T][#T]1}.{#T=[>][#U][#W][<]}.{#U=[$a][#S1][$b],#W=[$b][#S2]([#S3])[$a]}.{#S1=[$]cc[$],#S2=[$]C[$][$],#S3=[$]C(=O)[O-]}",
                     "{[#T]1[#T][#T]1}.{#T=[>][#U][#W][<]}.{#W=[$b][#S2]([#S3])[$a],#U=[$a][#S1][$b]}.{#S3=[$]C(=O)[O-],#S1=[$]cc[$],#S2=[$]C[$][$]}"],
        "levels": 3, "all_atom": True},
    # an atom with two different descriptors that both match the same partner atom
    4: {"variants": ["{[#A][#B]}.{#A=[$a]=[$b]C,#B=[$a]=[$b]C}", "{[#A][#B]}.{#B=[$a]=[$b]C,#A=[$a]=[$b]C}"],
        "levels": 1, "all_atom": True},
    # labels select the attachment point
    5: {"variants": ["{[#A][#B]}.{#A=CC[$t],#B=[$h]C(F)C[$t]}", "{[#A][#B]}.{#B=[$h]C(F)C[$t],#A=CC[$t]}"],
        "levels": 1, "all_atom": True},
}


def worker(histories, hashseed):
    env = dict(os.environ)
    env["PYTHONHASHSEED"] = str(hashseed)
    env["PYTHONPATH"] = common.VERIF
    p = subprocess.run([sys.executable, "-m", "harness.histworker"], input=json.dumps({"inputs": INPUTS, "histories": histories}),
                       capture_output=True, text=True, env=env, cwd=common.VERIF, timeout=1200)
    if p.returncode != 0:
        raise tlc.TLCError("history worker failed: " + p.stderr[-2000:])
    return json.loads(p.stdout)


def reference():
    """digest of every (input, level), obtained in a fresh process by stepping from_string objects"""
    hists = []
    for i, inp in INPUTS.items():
        h = [{"op": "new", "obj": 1, "inp": i, "ctor": "from_string", "variant": 1}]
        h += [{"op": "resolve", "obj": 1, "inp": i, "ctor": "from_string"} for _ in range(inp["levels"])]
        hists.append(h)
    ref = []
    for events in worker(hists, 0):
        for e in events:
            for lv, dg in e["yields"]:
                ref.append([e["inp"], lv, dg])
    return ref


HIST_CONSTS = {
    "quick": dict(Inputs="{1, 4, 5}", Levels="Lv", MaxObjs=2, MaxEvents=4, Ctors="CtorsAll", OtherKinds="OthersQ"),
    "thorough": dict(Inputs="{1, 2, 3, 4, 5}", Levels="Lv", MaxObjs=2, MaxEvents=5, Ctors="CtorsAll", OtherKinds="OthersAll"),
}


def enumerate_histories(check, tier):
    consts = HIST_CONSTS[tier]
    d = mc.write_cfg("hist", consts, ["LevelsBounded", "YieldedPrefix", "Emit"], properties=["Isolation"])
    # Inputs is a set literal: write_cfg used '<-' for strings; patch to '='
    p = os.path.join(d, "hist.cfg")
    txt = open(p).read().replace("Inputs <- ", "Inputs = ")
    open(p, "w").write(txt)
    r = tlc.run("ResolverAPI", cfg="hist", workers=common.NCPU, cwd=d, xmx="4g", timeout=1200)
    check.add_mc("ResolverAPI/" + tier, r, consts)
    hists, seen = [], set()
    for t, ints, p in r.printed:
        if t == "G":
            k = json.dumps(p["hist"], sort_keys=True)
            if k not in seen:
                seen.add(k)
                hists.append(p["hist"])
    # only maximal histories (no proper extension in the set) need replaying: prefixes are covered by them
    keys = {json.dumps(h, sort_keys=True) for h in hists}
    prefixes = {json.dumps(h[:-1], sort_keys=True) for h in hists if len(h) > 1}
    return [h for h in hists if json.dumps(h, sort_keys=True) not in prefixes]


def run_histories(check, tier, clauses):
    hists = enumerate_histories(check, tier)
    check.extra["histories_enumerated"] = len(hists)
    ref = reference()
    levels = [INPUTS[i]["levels"] for i in sorted(INPUTS)]
    traces = []
    # in-process histories (shared library objects), hash seed 0
    chunks = [hists[i::common.NCPU] for i in range(common.NCPU)]
    from concurrent.futures import ThreadPoolExecutor
    with ThreadPoolExecutor(max_workers=common.NCPU) as ex:
        results = list(ex.map(lambda ch: worker(ch, 0) if ch else [], chunks))
    for ch, res in zip(chunks, results):
        for h, events in zip(ch, res):
            traces.append({"levels": levels, "events": events, "reference": ref, "proc": "seed0", "hist": h})
    # single-object histories in fresh processes under other hash seeds
    # every input must be covered: up to N single-object histories per input
    per_input = {}
    for h in hists:
        if all(e["obj"] in (0, 1) for e in h):
            per_input.setdefault(h[0]["inp"], []).append(h)
    cap = 12 if tier == "quick" else 80
    has_other = lambda h: any(e["op"] == "other" for e in h)
    simple = [h for i in sorted(per_input) for h in [x for x in per_input[i] if not has_other(x)][:cap]]
    simple += [h for i in sorted(per_input) for h in [x for x in per_input[i] if has_other(x)][:cap // 2]]
    seeds = (1, 2, 3, 4, 5, 6, 7, 8, "random") if tier == "quick" else tuple(range(1, 25)) + ("random",)
    with ThreadPoolExecutor(max_workers=common.NCPU) as ex:
        outs = list(ex.map(lambda hs: worker(simple, hs), seeds))
    for hs, out in zip(seeds, outs):
        for h, events in zip(simple, out):
            traces.append({"levels": levels, "events": events, "reference": ref, "proc": "seed%s" % hs, "hist": h})
    check.extra["hash_seeds"] = [str(x) for x in seeds]
    slim = [{k: t[k] for k in ("levels", "events", "reference")} for t in traces]
    verdicts, stats = tlc.validate("ResolverAPITrace", slim)
    check.add_tv(stats)
    for t, v in zip(traces, verdicts):
        check.evaluations += 1
        check.traces += 1
        if len(t["events"]) > 2:
            check.nontrivial.add(json.dumps(t["hist"], sort_keys=True) + t["proc"])
        if not v["X_Behaviour"]:
            # the recorded events are not a behaviour of ResolverAPI: which clause? report under the drivers clause
            pass
        failed = [c for c in clauses if not v[c]]
        for c in clauses:
            check.count_clause(c, v[c])
        if failed:
            check.violation(failed[0], {"key": json.dumps(t["hist"]) + t["proc"], "hist": t["hist"], "proc": t["proc"],
                                        "events": t["events"], "inputs": INPUTS}, v)
        else:
            check.sample({"history": [(e["op"], e["obj"], e["inp"], e["ctor"]) for e in t["hist"]], "proc": t["proc"]}, limit=5)
    return traces, verdicts
