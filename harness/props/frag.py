"""
C13: strip_bonding_descriptors against FragText.tla.
"""
import glob
import os
import re

from .. import common, tlc, render, project, mc
from ..report import Check

INVARIANTS = ["InsertionInert", "EveryDescriptorOnce", "OrdersFromSymbols", "GraphOK"]

CONSTS = {
    "quick": dict(MaxLen=4, AtomToks="AtomsQ", DescToks="DescQ", SymToks="SymsQ", RingToks="RingsQ",
                  SlashToks="NoSlash", Coarse="FALSE", MaxDepth=1, MaxDesc=2),
    "quick_cg": dict(MaxLen=4, AtomToks="AtomsCG", DescToks="DescQ", SymToks="SymsQ", RingToks="RingsQ",
                     SlashToks="NoSlash", Coarse="TRUE", MaxDepth=1, MaxDesc=2),
    # branch structure: sibling branches, nested branches, descriptors behind closed branches (one atom, one descriptor)
    "quick_branch": dict(MaxLen=8, AtomToks="AtomsC", DescToks="DescD", SymToks="NoSyms", RingToks="NoRingsF",
                         SlashToks="NoSlash", Coarse="FALSE", MaxDepth=2, MaxDesc=2),
    "quick_branch_cg": dict(MaxLen=8, AtomToks="AtomsCG1", DescToks="DescD", SymToks="NoSyms", RingToks="NoRingsF",
                            SlashToks="NoSlash", Coarse="TRUE", MaxDepth=2, MaxDesc=2),
    "thorough_branch": dict(MaxLen=10, AtomToks="AtomsC", DescToks="DescD", SymToks="NoSyms", RingToks="NoRingsF",
                            SlashToks="NoSlash", Coarse="FALSE", MaxDepth=3, MaxDesc=2),
    "thorough": dict(MaxLen=4, AtomToks="AtomsT", DescToks="DescT", SymToks="SymsT", RingToks="RingsT",
                     SlashToks="NoSlash", Coarse="FALSE", MaxDepth=1, MaxDesc=3),
    "thorough_cg": dict(MaxLen=6, AtomToks="AtomsCG", DescToks="DescQ", SymToks="SymsT", RingToks="RingsQ",
                        SlashToks="NoSlash", Coarse="TRUE", MaxDepth=2, MaxDesc=3),
    "sim": dict(MaxLen=30, AtomToks="AtomsT", DescToks="DescT", SymToks="SymsA", RingToks="RingsT",
                SlashToks="NoSlash", Coarse="FALSE", MaxDepth=3, MaxDesc=6),
    "sim_cg": dict(MaxLen=24, AtomToks="AtomsCG", DescToks="DescT", SymToks="SymsA", RingToks="RingsT",
                   SlashToks="NoSlash", Coarse="TRUE", MaxDepth=3, MaxDesc=6),
}


def frag_mc(check, key, **kw):
    consts = CONSTS[key]
    toks, r = mc.run(check, "FragTextMC", key, consts, INVARIANTS if not kw.get("simulate") else [],
                     dedupe=lambda p: render.render_fragment_tokens(p["toks"]), **kw)
    coarse = consts["Coarse"] == "TRUE"
    return [(p["toks"], coarse) for p in toks], r


def strip_record(toks, coarse):
    text = render.render_fragment_tokens(toks)
    return {"mode": "strip", "coarse": coarse, "toks": toks, "text": text, "obs": project.run_strip(text)}


def repo_fragment_texts():
    """fragment texts '#name=...' found in the repository's tests and docs"""
    out = []
    pats = [os.path.join(common.REPO, "cgsmiles", "tests", "*.py"),
            os.path.join(common.REPO, "docs", "source", "**", "*.rst"),
            os.path.join(common.REPO, "README.rst")]
    for pat in pats:
        for f in glob.glob(pat, recursive=True):
            try:
                txt = open(f, encoding="utf8", errors="replace").read()
            except OSError:
                continue
            for m in re.finditer(r"\{(#[^{}\n]*)\}", txt):
                for part in m.group(1).split(","):
                    name, eq, body = part.partition("=")
                    if eq and body:
                        out.append(body.replace("\\\\", "\\"))
            for m in re.finditer(r'\("([^"\n{}#,]*\[[$<>!][^"\n{}]*)",', txt):
                out.append(m.group(1).replace("\\\\", "\\"))
    seen, uniq = set(), []
    for s in out:
        if s not in seen:
            seen.add(s)
            uniq.append(s)
    return uniq


C13_CLAUSES = ["C13_Accepted", "C13_Clean", "C13_Desc", "C13_Ann"]
FIELDS = ("mode", "coarse", "toks", "obs")


def run_c13(tier):
    check = Check("C13", tier=tier)
    check.rule = ("every complete fragment token string of FragTextMC (descriptors of every kind/label/order at every "
                  "allowed position, annotations in bracket atoms, branches, ring digits, two-letter elements; atomistic "
                  "and coarse) + TLC -simulate strings up to 30 tokens + fragment texts found in /repo; distinct = distinct "
                  "text; non-trivial = at least one descriptor or annotation")
    items = []
    for key in (["quick", "quick_cg", "quick_branch", "quick_branch_cg"] if tier == "quick"
                else ["thorough", "thorough_cg", "thorough_branch", "quick_branch_cg"]):
        t, r = frag_mc(check, key)
        items += t
    check.exhaustive = True
    check.extra["exhaustive_strings"] = len(items)
    nsim = 150 if tier == "quick" else 1500
    for key, seed in (("sim", 11), ("sim_cg", 12)):
        t, r = frag_mc(check, key, simulate=f"num={nsim}", depth=30, seed=common.SEED + seed)
        items += t
    records = [strip_record(t, c) for t, c in items]
    ncorp = 0
    for s in repo_fragment_texts():
        coarse = "[#" in s
        try:
            tk = render.tokenize_fragment(s, coarse)
        except render.Untokenizable:
            continue
        if render.render_fragment_tokens(tk) != s:
            continue
        records.append(strip_record(tk, coarse))
        ncorp += 1
    check.extra["repo_corpus_texts"] = ncorp
    slim = [{k: r[k] for k in FIELDS} for r in records]
    verdicts, stats = tlc.validate("FragTextTrace", slim)
    check.add_tv(stats)
    for rec, v in zip(records, verdicts):
        check.evaluations += 1
        if not v.get("dom"):
            check.skipped += 1
            continue
        check.traces += 1
        if v.get("ndesc", 0) > 0 or any(t["a"] for t in rec["toks"]):
            check.nontrivial.add(rec["text"])
        failed = [c for c in C13_CLAUSES if not v[c]]
        for c in C13_CLAUSES:
            check.count_clause(c, v[c])
        if failed:
            check.violation(failed[0], {"key": rec["text"], **{k: rec[k] for k in ("mode", "coarse", "toks", "text", "obs")}}, v)
        else:
            check.sample({"text": rec["text"], "clean": rec["obs"]["clean"], "desc": rec["obs"]["desc"]})
    return check.finish()
