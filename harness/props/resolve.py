"""
Resolve family (C01 C02 C03 C06 C09 C10 C11 C12 and the resolver part of C20):
MoleculeResolver against Resolve.tla / ResolveTrace.tla.
"""
import glob
import os
import re

from .. import common, tlc, render, project, mc
from ..report import Check

TRACE_FIELDS = ("mode", "basekind", "base", "basegraph", "frags", "fragcoarse", "legacy", "allAtom", "obs",
                "ref", "wit")


# ----------------------------------------------------------------------------------------------
# parsing complete multi-level strings into token form
# ----------------------------------------------------------------------------------------------
def split_levels(text):
    return re.findall(r"\{[^\}]+\}", text)


def parse_fragment_block(block, coarse):
    """'{#A=...,#B=...}' -> [[name, tokens], ...] (raises Untokenizable)"""
    out = []
    for part in block[1:-1].split(","):
        delim = part.find("=")
        name = part[1:delim]
        body = part[delim + 1:]
        if delim < 0 or not part.startswith("#") or not re.fullmatch(r"\w+", name):
            raise render.Untokenizable(block)
        toks = render.tokenize_fragment(body, coarse)
        if render.render_fragment_tokens(toks) != body:
            raise render.Untokenizable(block)
        out.append([name, toks])
    return out


def parse_string(text, last_all_atom=True):
    levels = split_levels(text.replace("\n", "").replace(" ", ""))
    if not levels:
        raise render.Untokenizable(text)
    base = render.tokenize_graph(levels[0])
    if render.render_graph_tokens(base) != levels[0]:
        raise render.Untokenizable(text)
    frags = []
    for i, blk in enumerate(levels[1:]):
        coarse = not (last_all_atom and i == len(levels) - 2)
        frags.append((parse_fragment_block(blk, coarse), coarse))
    return base, frags


def basegraph_of(fine):
    """the coarse graph of the next step = this step's fine graph"""
    names = [n["name"] for n in fine["nodes"]]
    edges = [[e[0], e[1], e[2] // 2] for e in fine["edges"]]
    return {"names": names, "edges": edges}


def slim_obs(step, outcome="ok"):
    if step is None:
        return {"outcome": outcome, "coarse": {"nodes": [], "edges": []}, "fine": {"nodes": [], "edges": []}}
    return {"outcome": outcome, "coarse": step["coarse"], "fine": {"nodes": step["fine"]["nodes"], "edges": step["fine"]["edges"]}}


def records_for_string(text, last_all_atom=True, legacy=True, obs=None):
    """One trace record per resolution step of the string (C06_Chain: step k+1's coarse graph is step k's fine graph)."""
    base, frags = parse_string(text, last_all_atom)
    clean = text.replace("\n", "").replace(" ", "")
    if obs is None:
        obs = project.run_resolve(clean, last_all_atom=last_all_atom, legacy=legacy)
    recs = []
    prev_fine = None
    for i, (frag, coarse) in enumerate(frags):
        step = obs["steps"][i] if i < len(obs["steps"]) else None
        failed_here = step is None
        rec = {"mode": "resolve", "text": clean, "level": i,
               "basekind": "tokens" if i == 0 else "graph",
               "base": base if i == 0 else [],
               "basegraph": {"names": [], "edges": []} if i == 0 else basegraph_of(prev_fine),
               "frags": frag, "fragcoarse": coarse, "legacy": legacy,
               "allAtom": bool(last_all_atom and i == len(frags) - 1),
               "obs": slim_obs(step, "ok" if not failed_here else obs["outcome"])}
        recs.append(rec)
        if failed_here:
            break
        prev_fine = step["fine"]
    return recs


def repo_full_strings():
    out = []
    pats = [os.path.join(common.REPO, "cgsmiles", "tests", "*.py"),
            os.path.join(common.REPO, "docs", "source", "**", "*.rst"),
            os.path.join(common.REPO, "README.rst")]
    for pat in pats:
        for f in glob.glob(pat, recursive=True):
            try:
                txt = open(f, encoding="utf8", errors="replace").read()
            except OSError:
                continue
            for m in re.finditer(r"\{\[#[^{}\n]*\}(?:\s*\.\s*\{#[^{}]*\})+", txt):
                out.append(re.sub(r"\s+", "", m.group(0)).replace("\\\\", "\\"))
    out += BIG_STRINGS
    seen, uniq = set(), []
    for s in out:
        if s not in seen:
            seen.add(s)
            uniq.append(s)
    return uniq


# molecules well beyond the bounded universes: 45-90 atoms, residues whose atom keys cross 32 and 64, ten and more
# residues, two-digit multipliers (unambiguous libraries only: C08 re-writes and re-resolves them) (size-dependent defects: hash-ordered sets of keys, two-digit numbers, the tenth of something)
BIG_STRINGS = [
    "{[#PEO]|8}.{#PEO=[$]COC[$]}",
    "{[#OH][#PEO]|12[#OH]}.{#PEO=[$]COC[$],#OH=[$]O}",
    "{[#PS]|5}.{#PS=[$]CC(c1ccccc1)[$]}",
    "{[#A]|20}.{#A=[$]CC[$]}",
    "{[#A][#B]|11[#A]}.{#A=[$]C(C)C,#B=[>]CC(=O)N[<][$]}",
]


def validate(check, records):
    slim = [{k: r[k] for k in TRACE_FIELDS if k in r} for r in records]
    verdicts, stats = tlc.validate("ResolveTrace", slim, batch=max(1, min(1500, (len(slim) + common.NCPU - 1) // common.NCPU)),
                                   xmx="3g", timeout=1800)
    check.add_tv(stats)
    return verdicts


# ----------------------------------------------------------------------------------------------
# configurations enumerated by TLC (ResolveMC) and their replay
# ----------------------------------------------------------------------------------------------
_LIBS = None


def libs():
    """ResolveLibs as Python data: evaluated by TLC once (the spec is the source of truth)."""
    global _LIBS
    if _LIBS is None:
        d = common.scratch("libs-")
        for f in os.listdir(common.SPEC):
            if f.endswith(".tla"):
                os.symlink(os.path.join(common.SPEC, f), os.path.join(d, f))
        with open(os.path.join(d, "LibDump.tla"), "w") as fh:
            fh.write("---- MODULE LibDump ----\nEXTENDS ResolveLibs, TLC, Json\nVARIABLE x\n"
                     "Init == x = 0 /\\ PrintT(<<\"L\", 0, ToJson(AllLibs)>>)\nNext == UNCHANGED x\n====\n")
        with open(os.path.join(d, "LibDump.cfg"), "w") as fh:
            fh.write("INIT Init\nNEXT Next\nCHECK_DEADLOCK FALSE\n")
        r = tlc.run("LibDump", cfg="LibDump", cwd=d, workers=1)
        _LIBS = [p for t, i, p in r.printed if t == "L"][0]
    return _LIBS


def config_text(base, lib):
    return render.render_graph_tokens(base) + "." + lib["text"]


def config_record(base, lib, legacy, ctor="from_string"):
    text = config_text(base, lib)
    all_atom = not lib["coarse"]
    obs = project.run_resolve(text, last_all_atom=all_atom, legacy=legacy, ctor=ctor)
    step = obs["steps"][0] if obs["steps"] else None
    return {"mode": "resolve", "text": text, "level": 0, "basekind": "tokens", "base": base, "ctor": ctor,
            "basegraph": {"names": [], "edges": []}, "frags": lib["frags"], "fragcoarse": lib["coarse"],
            "legacy": legacy, "allAtom": all_atom,
            "obs": slim_obs(step, obs["outcome"]), "lib": lib["name"]}


RMC_CONSTS = {
    # longer base graphs over one real and the virtual node: '.' chain bonds in front of ring openings, several ring
    # markers on one node, virtual nodes closing rings (three libraries only)
    "ringvirtual": dict(MaxLen=8, NodeToks="NodesAV", SymToks="SymDot", RingToks="Rings2", MultCounts="NoMult",
                        MaxDepth=1, MaxOpen=2, EmitAll="FALSE", MaxNodes=4, LibSel="LibsRingVirtual"),
    # a multiplier directly in front of a zero-order chain bond / next to a virtual node ( [#A]|2.[#V], [#A]|2.[#A]|2 )
    "multvirtual": dict(MaxLen=6, NodeToks="NodesAV", SymToks="SymDot", RingToks="NoRings", MultCounts="Mult2",
                        MaxDepth=1, MaxOpen=1, EmitAll="FALSE", MaxNodes=5, LibSel="LibsRingVirtual"),
    "quick": dict(MaxLen=5, NodeToks="NodesABV", SymToks="SymDotEq", RingToks="Rings1", MultCounts="NoMult",
                  MaxDepth=1, MaxOpen=1, EmitAll="FALSE", MaxNodes=3, LibSel="LibsAll"),
    "thorough": dict(MaxLen=6, NodeToks="NodesABV", SymToks="SymDotEq", RingToks="Rings1", MultCounts="Mult2",
                     MaxDepth=1, MaxOpen=1, EmitAll="FALSE", MaxNodes=4, LibSel="LibsAll"),
}


def enumerate_configs(check, tier, extra=True):
    out = _enumerate_configs(check, tier)
    if extra and tier in ("quick", "thorough"):
        seen = {(render.render_graph_tokens(b), l["name"], g) for b, l, g in out}
        for uni in ("ringvirtual", "multvirtual"):
            for b, l, g in _enumerate_configs(check, uni):
                if (render.render_graph_tokens(b), l["name"], g) not in seen:
                    seen.add((render.render_graph_tokens(b), l["name"], g))
                    out.append((b, l, g))
    return out


def _enumerate_configs(check, tier):
    consts = RMC_CONSTS[tier]
    d = mc.write_cfg("rmc", consts, ["REmit"])
    # ResolveMC uses its own Init/Next
    cfgp = os.path.join(d, "rmc.cfg")
    txt = open(cfgp).read().replace("SPECIFICATION Spec", "SPECIFICATION Spec2")
    open(cfgp, "w").write(txt)
    r = tlc.run("ResolveMC", cfg="rmc", workers=common.NCPU, cwd=d, xmx="6g", timeout=1800)
    check.add_mc("ResolveMC/" + tier, r, consts)
    L = libs()
    seen, out = set(), []
    for t, ints, p in r.printed:
        if t != "G":
            continue
        key = (render.render_graph_tokens(p["base"]), p["lib"], p["legacy"])
        if key in seen:
            continue
        seen.add(key)
        out.append((p["base"], L[p["lib"] - 1], p["legacy"]))
    return out


# ----------------------------------------------------------------------------------------------
# cut-and-resolve configurations (C01, C10)
# ----------------------------------------------------------------------------------------------
def cut_record(g, cfg, legacy=True):
    from .. import molgen
    text = render.render_graph_tokens(cfg["base"]) + ".{" + ",".join(
        "#" + n + "=" + render.render_fragment_tokens(t) for n, t in cfg["frags"]) + "}"
    obs = project.run_resolve(text, last_all_atom=True, legacy=legacy)
    step = obs["steps"][0] if obs["steps"] else None
    ref, pos = molgen.reference_record(g, cfg["member"])
    wit = []
    if step is not None:
        ok = True
        for n in step["fine"]["nodes"]:
            if n["isH"] and not n["map"]:
                continue
            targets = {cfg["posmap"].get((m[0], m[1])) for m in n["map"]}
            if len(targets) != 1 or None in targets:
                ok = False
                break
            wit.append([n["id"], pos[targets.pop()]])
        if not ok:
            wit = vf2_witness(step["fine"], ref)
    return {"mode": "resolve", "text": text, "level": 0, "basekind": "tokens", "base": cfg["base"],
            "basegraph": {"names": [], "edges": []}, "frags": cfg["frags"], "fragcoarse": False,
            "legacy": legacy, "allAtom": True, "obs": slim_obs(step, obs["outcome"]),
            "ref": ref, "wit": wit, "nshared": cfg["nshared"], "ncuts": cfg["ncuts"], "nblocks": cfg["nblocks"]}


def vf2_witness(fine, ref):
    import networkx as nx
    from networkx.algorithms import isomorphism as iso
    a = nx.Graph()
    for n in fine["nodes"]:
        if not n["isH"]:
            a.add_node(n["id"], lab=(n["el"], n["chg"]))
    for e in fine["edges"]:
        if e[0] in a and e[1] in a:
            a.add_edge(e[0], e[1], o=e[2])
    b = nx.Graph()
    for i, at in enumerate(ref["atoms"]):
        b.add_node(i + 1, lab=(at[0], at[1]))
    for x, y, o in ref["bonds"]:
        b.add_edge(x, y, o=o)
    gm = iso.GraphMatcher(a, b, node_match=lambda x, y: x["lab"] == y["lab"], edge_match=lambda x, y: x["o"] == y["o"])
    if gm.is_isomorphic():
        return [[k, v] for k, v in sorted(gm.mapping.items())]
    return []


def cut_corpus(rng, n_random, tier, share=0.0, kinds=("$", "<>")):
    """(molecule, config) pairs: catalogue molecules x partitions x renderings, and random molecules."""
    from .. import molgen
    out = []
    mols = []
    for smi in molgen.CATALOGUE:
        try:
            mols.append((smi, molgen.read_reference(smi)))
        except Exception:
            continue
    per = 4 if tier == "quick" else 16
    for smi, g in mols:
        n = g.number_of_nodes()
        if n <= 4:
            parts = list(molgen.all_partitions(g, 4))
            rng.shuffle(parts)
            parts = parts[: per * 3]
        else:
            parts = [molgen.random_partition(g, rng, rng.randint(1, min(5, n))) for _ in range(per)]
        for block in parts:
            cfg = molgen.make_cut_config(g, block, rng, kinds=kinds, share=share)
            if cfg is not None:
                out.append((g, cfg, smi))
    for smi, blocks in molgen.MULTICUT:
        g = molgen.read_reference(smi)
        for _ in range(per):
            cfg = molgen.make_cut_config(g, dict(enumerate(blocks)), rng, kinds=kinds, share=0.0)
            if cfg is not None:
                out.append((g, cfg, smi))
    g = molgen.read_reference(molgen.HUB[0])
    for _ in range(per * 3):
        cfg = molgen.make_cut_config(g, molgen.hub_blocks(), rng, kinds=kinds, share=0.0, numeric=True)
        if cfg is not None:
            out.append((g, cfg, molgen.HUB[0]))
    for i in range(n_random):
        g = molgen.random_molecule(rng, rng.randint(2, 12))
        if not perceived_ok(g):
            continue
        block = molgen.random_partition(g, rng, rng.randint(1, min(5, g.number_of_nodes())))
        cfg = molgen.make_cut_config(g, block, rng, kinds=kinds, share=share)
        if cfg is not None:
            out.append((g, cfg, "random%d" % i))
    return out


def perceived_ok(g):
    """keep a molecule only if pysmiles' own aromaticity perception of the uncut molecule is stable"""
    import pysmiles
    h = g.copy()
    try:
        pysmiles.smiles_helper.correct_aromatic_rings(h, strict=True)
    except Exception:
        return False
    for a, b, d in g.edges(data=True):
        if h.edges[a, b].get("order") != d.get("order"):
            return False
    return all(bool(h.nodes[n].get("aromatic", False)) == bool(g.nodes[n].get("aromatic", False)) for n in g.nodes)


# ----------------------------------------------------------------------------------------------
# C11 twin: the same configuration with virtual nodes and zero-order edges removed
# ----------------------------------------------------------------------------------------------
def twin_observation(base_tokens, lib_text, lib_names, all_atom, legacy):
    import networkx as nx
    from cgsmiles import read_cgsmiles, MoleculeResolver
    try:
        with project.quiet():
            g = read_cgsmiles(render.render_graph_tokens(base_tokens))
            real = [n for n in sorted(g.nodes) if g.nodes[n]["fragname"] in lib_names]
            new = {n: i for i, n in enumerate(real)}
            h = nx.Graph()
            for n in real:
                h.add_node(new[n], **g.nodes[n])
            for a, b, d in g.edges(data=True):
                if a in new and b in new and d["order"] != 0:
                    h.add_edge(new[a], new[b], **d)
            r = MoleculeResolver.from_graph(lib_text, h, last_all_atom=all_atom, legacy=legacy)
            meta, mol = r.resolve()
    except Exception as exc:
        return {"outcome": project.outcome_of(exc), "fine": {"nodes": [], "edges": []}}
    f = project.project_fine(mol, all_atom)
    return {"outcome": "ok", "fine": {"nodes": f["nodes"], "edges": f["edges"]}}


def has_virtual_or_zero(base_tokens, lib_names):
    return any(t["k"] == "N" and t["v"] not in lib_names for t in base_tokens) or \
        any(t["k"] == "B" and t["v"] == "." for t in base_tokens)


# ----------------------------------------------------------------------------------------------
# the checks
# ----------------------------------------------------------------------------------------------
CLAUSES = {
    "C01": ["X_Accepted", "C01_Original"],
    "C02": ["C02_Records", "C02_Graph", "C02_Cover", "C02_Copy"],
    "C03": ["C03_Across", "C03_NoBareBond", "C03_CountLE", "C03_CountEQ", "C03_Carried", "C03_Compatible",
            "C03_Order", "C03_Once"],
    "C09": ["C09_Complete", "C09_HDegree", "C09_HInherits"],
    "C10": ["X_Accepted", "C10_NothingElseMerged", "C10_OneFewerPerPair", "C10_SharedBelongsToBoth", "C01_Original"],
    "C11": ["C11_NoBondOnZero", "C11_VirtualEmpty", "C11_RejectsBondedVirtual", "C11_SameMolecule",
            "C02_Graph", "C02_Copy", "X_Accepted"],
    "C12": ["C12_Keys", "C12_Contiguous", "C12_AtomNames"],
    "C20": ["C20_Raises", "C20_NoGraph"],
}


def judge(check, pid, records, verdicts, nontrivial=None, only=None):
    clauses = CLAUSES[pid]
    for rec, v in zip(records, verdicts):
        check.evaluations += 1
        if not v.get("dom"):
            check.skipped += 1
            continue
        if only and not only(rec, v):
            continue
        check.traces += 1
        if nontrivial is None or nontrivial(rec, v):
            check.nontrivial.add(rec["text"] + ("|L" if rec.get("legacy") else "|N"))
        failed = []
        for c in clauses:
            if c in v:
                check.count_clause(c, bool(v[c]))
                if v[c] is False:
                    failed.append(c)
        if failed:
            slim = {k: rec[k] for k in ("text", "level", "legacy", "allAtom", "lib", "smi", "nshared") if k in rec}
            slim["key"] = rec["text"] + "|" + str(rec.get("legacy")) + "|" + str(rec.get("level"))
            slim["obs"] = {"outcome": rec["obs"]["outcome"]}
            slim["record_fields"] = {k: rec[k] for k in TRACE_FIELDS if k in rec and k != "obs"}
            check.violation(failed[0], slim, v)
        else:
            check.sample({"text": rec["text"][:200], "legacy": rec.get("legacy"), "outcome": rec["obs"]["outcome"]}, limit=4)


def _one_config(args):
    i, base, lib, legacy, with_twin = args
    ctors = ("from_string", "from_graph", "from_fragment_dicts")
    r = config_record(base, lib, legacy, ctors[i % 3])
    if with_twin:
        names = {f[0] for f in lib["frags"]}
        if has_virtual_or_zero(base, names) and r["obs"]["outcome"] == "ok":
            r["twin"] = twin_observation(base, lib["text"], names, not lib["coarse"], legacy)
    return r


def pmap(fn, items, chunksize=64):
    """replay in worker processes (fork): the implementation is pure Python and single-threaded"""
    import multiprocessing as mp
    if len(items) < 200:
        return [fn(x) for x in items]
    ctx = mp.get_context("fork")
    with ctx.Pool(common.NCPU) as pool:
        return pool.map(fn, items, chunksize=chunksize)


def decorations(base, names):
    """The base graph with one fragment-less node [#V] hung on a real node by a zero-order ring bond: the marker is
    written in front of / behind the markers the node already has, in digit and in % form; [#V] follows a '.' at the end."""
    used = {t["n"] for t in base if t["k"] == "R"}
    free = next(n for n in range(2, 99) if n not in used)
    out = []
    for i, t in enumerate(base):
        if t["k"] != "N" or t["v"] not in names:
            continue
        j = i + 1
        while j < len(base) and (base[j]["k"] == "R" or (base[j]["k"] == "B" and j + 1 < len(base) and base[j + 1]["k"] == "R")):
            j += 1
        for at in sorted({i + 1, j}):
            for form, n in (("d", free), ("%", free + 10)):
                if n in used:
                    continue
                ring = render.tok("R", form, n)
                new = base[:at] + [render.tok("B", "."), ring] + base[at:] + [render.tok("B", "."), render.tok("N", "V"), ring]
                out.append(new)
    return out


def _one_decorated(args):
    i, base, lib, legacy = args
    names = {f[0] for f in lib["frags"]}
    orig = config_record(base, lib, legacy)
    if orig["obs"]["outcome"] != "ok":
        return []
    recs = []
    for new in decorations(base, names):
        try:
            if render.render_graph_tokens(render.tokenize_graph(render.render_graph_tokens(new))) != render.render_graph_tokens(new):
                continue
        except render.Untokenizable:
            continue
        r = config_record(new, lib, legacy)
        r["twin"] = {"outcome": "ok", "fine": orig["obs"]["fine"]}      # the undecorated configuration, read on its own
        r["decorated"] = True
        recs.append(r)
    return recs


def decorated_records(cfgs, tier):
    """configurations with a ring and without virtual node, decorated with a zero-order ring bond to a virtual node"""
    rng = common.rng("decorate")
    cand = [(b, l, g) for b, l, g in cfgs
            if any(t["k"] == "R" for t in b) and "V" not in {f[0] for f in l["frags"]}
            and not any(t["k"] == "N" and t["v"] not in {f[0] for f in l["frags"]} for t in b)]
    rng.shuffle(cand)
    cand = cand[: 150 if tier == "quick" else 2500]
    out = []
    for rs in pmap(_one_decorated, [(i, b, l, g) for i, (b, l, g) in enumerate(cand)], chunksize=8):
        out += rs
    return out


def config_records(check, tier, with_twin=False, extra=False):
    cfgs = enumerate_configs(check, tier, extra=extra)
    recs = pmap(_one_config, [(i, b, l, g, with_twin) for i, (b, l, g) in enumerate(cfgs)])
    if with_twin:
        dec = decorated_records(cfgs, tier)
        check.extra["decorated_configs"] = len(dec)
        recs += dec
    return recs


def repo_records():
    recs = []
    for s in repo_full_strings():
        aa = "[#" not in s.split(".{")[-1]
        try:
            recs += records_for_string(s, last_all_atom=aa)
        except render.Untokenizable:
            continue
    return recs


def validate_with(check, records, extra=()):
    slim = [{k: r[k] for k in TRACE_FIELDS + tuple(extra) if k in r} for r in records]
    verdicts, stats = tlc.validate("ResolveTrace", slim, batch=max(1, min(1500, (len(slim) + common.NCPU - 1) // common.NCPU)),
                                   xmx="3g", timeout=1800)
    check.add_tv(stats)
    return verdicts


def _cut_records(check, tier, share, tag):
    rng = common.rng(tag)
    corp = cut_corpus(rng, 150 if tier == "quick" else 3000, tier, share=share)
    recs = []
    for g, cfg, smi in corp:
        r = cut_record(g, cfg, legacy=True)   # uniquely labelled pairs need the label-sensitive convention
        r["smi"] = smi
        recs.append(r)
    return recs


MOL_CONSTS = {"quick": dict(MaxAtoms=3, Elements="ElsQ", Orders="Ord123"),
              "thorough": dict(MaxAtoms=4, Elements="ElsT", Orders="Ord12")}


def tlc_molecules(check, tier, share, tag):
    """every (molecule, partition) pair of MolMC.tla, cut along the partition and rendered (seeded renderings)"""
    import networkx as nx
    from .. import molgen
    rng = common.rng(tag)
    consts = MOL_CONSTS[tier]
    out, r = mc.run(check, "MolMC", "mol_" + tier, consts, ["SimpleAndFeasible"], dedupe=lambda p: str(p))
    if tier == "thorough":
        extra, r2 = mc.run(check, "MolMC", "mol_small", MOL_CONSTS["quick"], ["SimpleAndFeasible"], dedupe=lambda p: str(p))
        out = extra + out
    recs = []
    nskip = 0
    for p in out:
        g = nx.Graph()
        for i, el in enumerate(p["els"]):
            g.add_node(i, element=el, charge=0, aromatic=False, hcount=0)
        for a, b, o in p["bonds"]:
            g.add_edge(a - 1, b - 1, order=o)
        if not perceived_ok(g):
            nskip += 1
            continue
        block = {i: p["block"][i] - 1 for i in range(p["n"])}
        cfg = molgen.make_cut_config(g, block, rng, share=share)
        if cfg is None:
            nskip += 1
            continue
        rec = cut_record(g, cfg, legacy=True)
        rec["smi"] = "MolMC:" + ",".join(p["els"])
        recs.append(rec)
    check.extra["tlc_enumerated_molecule_partitions"] = len(out)
    check.extra["tlc_enumerated_skipped_by_perception"] = nskip
    check.skipped += nskip
    return recs


def _forced_sharing(check, tier):
    """every cut bond replaced by a shared atom (share = 1): atoms shared by three, four, five fragments, chains of
    shared atoms - on the small branched molecules of the catalogue and on stars"""
    from .. import molgen
    rng = common.rng("c10forced")
    smiles = ["CC(C)C", "CC(C)(C)C", "NC(C)(O)C", "CC(C)CC(C)C", "C1CC1C", "OCC(O)CO", "CS(=O)(=O)C", "CP(=O)(O)O"]
    recs = []
    for smi in smiles:
        g = molgen.read_reference(smi)
        n = g.number_of_nodes()
        parts = [{a: i for i, a in enumerate(g.nodes)}]          # every atom its own block
        parts += [molgen.random_partition(g, rng, rng.randint(2, n)) for _ in range(3 if tier == "quick" else 20)]
        for pi, block in enumerate(parts):
            # the all-singletons partition gets many base-graph numberings (the order of the hub among its
            # neighbours matters), the others a few
            for rep in range((40 if tier == "quick" else 200) if pi == 0 else 4):
                cfg = molgen.make_cut_config(g, block, rng, share=1.0, share_hub=rep % 4 != 3)
                if cfg is None:
                    continue
                r = cut_record(g, cfg, legacy=True)
                r["smi"] = smi + " (all cuts shared)"
                recs.append(r)
    check.extra["forced_sharing_configs"] = len(recs)
    return recs


def run_c01(tier):
    check = Check("C01", tier=tier)
    check.rule = ("every molecule of <= 3 heavy atoms over C N O Cl with valence-feasible bond orders 1-3 x every partition into "
                  "connected blocks, enumerated by TLC (MolMC.tla); catalogue (44 molecules: chains, branches, rings, aromatics, charges, S/P, halogens) and seeded random "
                  "molecules <= 12 heavy atoms x partitions into connected blocks (all partitions for <= 4 atoms) x descriptor "
                  "kinds ($x/$x, >x/<x, unique labels) x random SMILES renderings (start atom, branch order, ring digits incl. "
                  "%nn, descriptor before/after ring digits) x base-graph numbering; non-trivial = at least one cut bond")
    recs = _cut_records(check, tier, 0.0, "c01")
    recs += tlc_molecules(check, tier, 0.0, "c01mc")
    check.exhaustive = True
    verdicts = validate_with(check, recs)
    judge(check, "C01", recs, verdicts, nontrivial=lambda r, v: r.get("ncuts", 0) > 0)
    check.extra["cut_configs"] = len(recs)
    check.assumptions.append("aromatic ring perception is pysmiles' (outside the system under test): reference orders are "
                             "those pysmiles perceives on the uncut molecule")
    return check.finish()


def layered_sharing_records(tier, tag, want):
    """shared atoms / shared beads at SEVERAL levels of one string (three and more resolutions, squash at each of them)"""
    from .. import molgen
    rng = common.rng(tag)
    mols = [(smi, molgen.read_reference(smi)) for smi in molgen.CATALOGUE]
    mols = [(smi, g) for smi, g in mols if g.number_of_nodes() >= 4]
    tries, nlay, recs = 0, 0, []
    while nlay < want and tries < 20 * want:
        tries += 1
        smi, g = rng.choice(mols)
        lay = molgen.layered_config(g, rng, rng.randint(1, 2), share_top=0.6, share_atom=0.6)
        if lay is None or lay["nlevels"] == 0:
            continue
        rr, text = layered_records(g, lay, smi)
        for r in rr:
            r.setdefault("nshared", lay["atomistic"].get("nshared", 0))
        recs += rr
        nlay += 1
    return recs, nlay


def run_c10(tier):
    check = Check("C10", tier=tier)
    check.rule = ("the C01 corpus with a random subset of the cut bonds replaced by sharing one end atom ('!x' pairs, incl. "
                  "several per fragment, atoms shared by three fragments, chains, aromatic atoms, atoms that also carry "
                  "ordinary descriptors); non-trivial = at least one shared atom")
    recs = _cut_records(check, tier, 0.6, "c10")
    recs += tlc_molecules(check, tier, 0.7, "c10mc")
    recs += _forced_sharing(check, tier)
    lrecs, nlay = layered_sharing_records(tier, "c10lay", 60 if tier == "quick" else 1200)
    recs += lrecs
    check.extra["layered_strings_with_sharing"] = nlay
    verdicts = validate_with(check, recs, extra=("noblocks", "otherfrags"))
    judge(check, "C10", recs, verdicts, nontrivial=lambda r, v: r.get("nshared", 0) > 0)
    check.extra["shared_configs"] = sum(1 for r in recs if r.get("nshared", 0) > 0)
    return check.finish()


def _config_check(pid, tier, rule, with_twin=False, extra_records=True, only=None, nontrivial=None):
    check = Check(pid, tier=tier)
    check.rule = rule
    recs = config_records(check, tier, with_twin=with_twin, extra=pid in ("C11", "C02"))
    check.exhaustive = True
    check.extra["enumerated_configs"] = len(recs)
    if extra_records:
        recs += repo_records()
        recs += _cut_records(check, tier, 0.3, pid.lower())
    verdicts = validate_with(check, recs, extra=("twin",) if with_twin else ())
    judge(check, pid, recs, verdicts, only=only, nontrivial=nontrivial)
    return check, recs, verdicts


CFG_RULE = ("every base graph of the bounded grammar (<= {n} nodes over A, B and the fragment-less V; chains, branches, rings; "
            "orders 0-2) x 15 fragment libraries (unlabelled/labelled/directed/double/surplus/mixed/squash/aromatic/charged/"
            "annotated/coarse) x both matching conventions, enumerated by TLC (ResolveMC; plus its ringvirtual and multvirtual universes: ring markers / a multiplier next to zero-order bonds and virtual nodes); plus resolver strings found in "
            "/repo and seeded cut configurations; every resolution step is one trace")


def run_c02(tier):
    check, recs, verdicts = _config_check("C02", tier, CFG_RULE.format(n=3 if tier == "quick" else 4) +
                                          "; plus layered strings with shared beads/atoms at several levels (the records of "
                                          "every step); non-trivial = more than one coarse node",
                                          only=lambda r, v: v.get("checked"),
                                          nontrivial=lambda r, v: len(r["obs"]["coarse"]["nodes"]) > 1)
    lrecs, nlay = layered_sharing_records(tier, "c02lay", 40 if tier == "quick" else 600)
    lverd = validate_with(check, lrecs, extra=("noblocks", "otherfrags"))
    judge(check, "C02", lrecs, lverd, only=lambda r, v: v.get("checked"),
          nontrivial=lambda r, v: len(r["obs"]["coarse"]["nodes"]) > 1)
    check.extra["layered_strings_with_sharing"] = nlay
    return check.finish()


DESIGN_INV = ["Once", "NeverFreeAndUsed", "Across", "CountLE", "Compat", "NoBondOnZero", "EqualOrder", "DedicatedComplete",
              "Maximal"]
DESIGN_CONSTS = {"quick": [dict(MaxNodes=2, Orders="Ord012", TemplateNames="TN6"), dict(MaxNodes=3, Orders="Ord12", TemplateNames="TN3")],
                 "thorough": [dict(MaxNodes=3, Orders="Ord012", TemplateNames="TN6")]}


def design_model(check, tier):
    """ResolveDesign.tla: every pairing of every bounded configuration; C03 clauses as invariants of the design"""
    for i, consts in enumerate(DESIGN_CONSTS[tier]):
        mc.run(check, "ResolveDesign", "rd%d" % i, consts, DESIGN_INV, emit=None, timeout=3000, xmx="12g")


def apalache_inductive(check):
    """PairingInd.tla: Init => IndInv, IndInv /\\ Next => IndInv', IndInv => Once, discharged symbolically by Apalache
    (all side / class assignments of 6 descriptor instances at once).  Tool trouble is recorded, never an alarm."""
    import shutil
    import subprocess
    if shutil.which("apalache-mc") is None:
        check.extra["apalache_inductive"] = "apalache-mc not found"
        return
    out = common.scratch("apa-")
    steps = [("Init", "IndInv", 0), ("IndInit", "IndInv", 1), ("IndInit", "Once", 0)]
    res = []
    for init, inv, length in steps:
        try:
            p = subprocess.run(["apalache-mc", "check", f"--init={init}", f"--inv={inv}", f"--length={length}",
                                f"--out-dir={out}", "PairingInd.tla"], cwd=common.SPEC, capture_output=True, text=True, timeout=900)
            txt = p.stdout + p.stderr
            if "EXITCODE: OK" in txt:
                res.append(f"{init}=>{inv}@{length}: OK")
            elif "EXITCODE: ERROR (12)" in txt or "violat" in txt.lower():
                res.append(f"{init}=>{inv}@{length}: COUNTEREXAMPLE")
                check.violation("model:PairingInd_" + inv, {"key": "PairingInd " + init + inv, "model": "PairingInd"}, {"apalache": txt[-1500:]})
            else:
                res.append(f"{init}=>{inv}@{length}: tool error")
        except subprocess.TimeoutExpired:
            res.append(f"{init}=>{inv}@{length}: timeout")
    check.extra["apalache_inductive"] = res


def run_c03(tier):
    check, recs, verdicts = _config_check("C03", tier, CFG_RULE.format(n=3 if tier == "quick" else 4) +
                                          "; non-trivial = at least one inter-fragment bond in the result",
                                          only=lambda r, v: v.get("checked"),
                                          nontrivial=lambda r, v: any(e[3] for e in r["obs"]["fine"]["edges"]))
    check.extra["dedicated_configs"] = sum(1 for v in verdicts if v.get("dedicated"))
    design_model(check, tier)
    if tier == "thorough":
        apalache_inductive(check)
    return check.finish()


def run_c09(tier):
    # the property holds whatever the process did before: the hydrogen helpers are first used the way other callers use
    # them (mass of a plain molecule graph, a graph without fragment attributes) - the worker processes inherit that state
    from .. import histworker
    with project.quiet():
        histworker.other_use("mass", None)
    check, recs, verdicts = _config_check("C09", tier, CFG_RULE.format(n=3 if tier == "quick" else 4) +
                                          "; only all-atom results are judged; non-trivial = result has a hydrogen",
                                          only=lambda r, v: v.get("checked") and r["allAtom"],
                                          nontrivial=lambda r, v: any(n["isH"] for n in r["obs"]["fine"]["nodes"]))
    try:
        from . import sampler
        if hasattr(sampler, "c09_records"):
            sampler.c09_records(check, tier)
    except ImportError:
        pass
    return check.finish()


def run_c11(tier):
    check, recs, verdicts = _config_check("C11", tier, CFG_RULE.format(n=3 if tier == "quick" else 4) +
                                          "; each configuration with a virtual node or zero-order edge is paired with its twin "
                                          "without them (from_graph); non-trivial = has a virtual node or zero-order edge",
                                          with_twin=True, extra_records=False,
                                          only=lambda r, v: v.get("hasvirtual") or v.get("haszero") or not v.get("checked"),
                                          nontrivial=lambda r, v: True)
    check.extra["twins_compared"] = sum(1 for r in recs if "twin" in r)
    # virtual nodes in strings with SEVERAL levels: a fragment-less node in front of / behind the top-level graph
    # (zero-order chain bond); every level must resolve as without it and the last level must give the molecule
    from .. import molgen
    rng = common.rng("c11lay")
    mols = [(smi, molgen.read_reference(smi)) for smi in molgen.CATALOGUE]
    mols = [(smi, g) for smi, g in mols if g.number_of_nodes() >= 4]
    want, tries, lrecs = (40 if tier == "quick" else 600), 0, []
    nlay = 0
    while nlay < want and tries < 20 * want:
        tries += 1
        smi, g = rng.choice(mols)
        lay = molgen.layered_config(g, rng, rng.randint(1, 2))
        if lay is None or lay["nlevels"] == 0:
            continue
        v = render.tok("N", "V")
        dot = render.tok("B", ".")
        lay = dict(lay)
        lay["top"] = ([v, dot] + lay["top"]) if rng.random() < 0.5 else (lay["top"] + [dot, v])
        try:
            if render.render_graph_tokens(render.tokenize_graph(render.render_graph_tokens(lay["top"]))) != \
                    render.render_graph_tokens(lay["top"]):
                continue
        except render.Untokenizable:
            continue
        rr, text = layered_records(g, lay, smi)
        lrecs += rr
        nlay += 1
    lverd = validate_with(check, lrecs, extra=("noblocks", "otherfrags"))
    CLAUSES["C11L"] = ["X_Accepted", "C01_Original", "C11_NoBondOnZero", "C11_VirtualEmpty", "C02_Graph", "C03_Across", "C03_CountLE"]
    judge(check, "C11L", lrecs, lverd, nontrivial=lambda r, v: True)
    check.extra["layered_strings_with_virtual_node"] = nlay
    return check.finish()


def run_c12_structural(check, tier):
    recs = config_records(check, tier)
    recs += repo_records()
    recs += _cut_records(check, tier, 0.3, "c12")
    verdicts = validate_with(check, recs)
    judge(check, "C12", recs, verdicts, only=lambda r, v: v.get("checked"),
          nontrivial=lambda r, v: len(r["obs"]["coarse"]["nodes"]) > 1)
    return recs


def run_c20_resolver(check, tier):
    cfgs = [c for c in enumerate_configs(check, tier, extra=False) if any(t["k"] == "N" and t["v"] == "V" for t in c[0])]
    recs = pmap(_one_config, [(i, b, l, g, False) for i, (b, l, g) in enumerate(cfgs)])
    verdicts = validate_with(check, recs)
    judge(check, "C20", recs, verdicts, only=lambda r, v: v.get("expected") != "ok",
          nontrivial=lambda r, v: True)
    check.extra["resolver_fault_configs"] = sum(1 for v in verdicts if v.get("dom") and v.get("expected") != "ok")


def run_c12(tier):
    check = Check("C12", tier=tier)
    check.rule = (CFG_RULE.format(n=3 if tier == "quick" else 4) + " (structural clauses: keys 0..n-1, contiguous blocks, atom "
                  "names); plus every call history of ResolverAPI.tla up to the bound (three constructors, three drivers, "
                  "objects sharing fragment-library objects, permuted fragment definitions) replayed in fresh processes under "
                  "several PYTHONHASHSEED values and compared digest-by-digest with a fresh-process reference; plus every behaviour of "
                  "GraphOps.tla (merge / bond / squash / sort / annotate / names, <= 5-6 calls) replayed into graph_utils and "
                  "squash_atoms (X_GraphOps_*); non-trivial = "
                  "more than one coarse node / history of more than two events")
    run_c12_structural(check, tier)
    # beyond the listed clauses: the graph bookkeeping itself, spec -> code (GraphOps.tla)
    from . import graphops
    graphops.run_graphops(check, tier)
    from . import fraglib
    fraglib.run_fraglib(check, tier)
    from . import history
    history.run_histories(check, tier, ["X_Behaviour", "C12_Function", "C12_LibraryUntouched"])
    return check.finish()


# ----------------------------------------------------------------------------------------------
# C06: layered resolutions
# ----------------------------------------------------------------------------------------------
def frag_block_text(frags):
    return "{" + ",".join("#" + n + "=" + render.render_fragment_tokens(t) for n, t in frags) + "}"


def layered_records(g, lay, smi):
    """records for every step of a layered string (driven by repeated resolve) + the flattened two-level string"""
    from .. import molgen
    atom = lay["atomistic"]
    blocks = [frag_block_text(f) for f in lay["coarse_levels"]] + [frag_block_text(atom["frags"])]
    text = render.render_graph_tokens(lay["top"]) + "." + ".".join(blocks)
    obs = project.run_resolve(text, last_all_atom=True, legacy=True)
    ref, pos = molgen.reference_record(g, None)
    recs = []
    prev_fine = None
    all_frags = list(lay["coarse_levels"]) + [atom["frags"]]
    for i, frags in enumerate(all_frags):
        step = obs["steps"][i] if i < len(obs["steps"]) else None
        last = i == len(all_frags) - 1
        rec = {"mode": "resolve", "text": text, "level": i, "smi": smi, "nlevels": len(all_frags),
               "basekind": "tokens" if i == 0 else "graph", "base": lay["top"] if i == 0 else [],
               "basegraph": {"names": [], "edges": []} if i == 0 else basegraph_of(prev_fine),
               "frags": frags, "fragcoarse": not last, "legacy": True, "allAtom": last,
               "obs": slim_obs(step, "ok" if step is not None else obs["outcome"])}
        if i == 0:
            rec["otherfrags"] = [[n, t, j < len(all_frags) - 1] for j, fr in enumerate(all_frags) if j > 0 for n, t in fr]
        if last and step is not None:
            wit = []
            for n in step["fine"]["nodes"]:
                if n["isH"] and not n["map"]:
                    continue
                targets = {atom["posmap"].get((m[0], m[1])) for m in n["map"]}
                if len(targets) != 1 or None in targets:
                    wit = vf2_witness(step["fine"], ref)
                    break
                wit.append([n["id"], pos[targets.pop()]])
            rec["ref"] = {"atoms": [a[:3] + [[]] for a in ref["atoms"]], "bonds": ref["bonds"]}
            rec["wit"] = wit
            rec["noblocks"] = True
        recs.append(rec)
        if step is None:
            break
        prev_fine = step["fine"]
    return recs, text


_DRIVERS = ("resolve", "resolve_iter", "resolve_all")


def coarse_last_record(lay, smi):
    """the layered string without its atomistic level, resolved with last_all_atom=False by one of the three drivers:
    the final graph must be the block graph of the fragmentation (names of the blocks, number of cut bonds as order)"""
    from .writer import graph_witness
    blocks = [frag_block_text(f) for f in lay["coarse_levels"]]
    text = render.render_graph_tokens(lay["top"]) + "." + ".".join(blocks)
    driver = _DRIVERS[len(text) % 3]
    obs = project.run_resolve(text, last_all_atom=False, legacy=True, driver=driver)
    bg, names = lay["atomistic"]["bg"], lay["atomistic"]["names"]
    order = sorted(bg.nodes)
    idx = {b: i for i, b in enumerate(order)}
    expected = {"outcome": "ok", "nodes": [[names[b], 0, False, []] for b in order],
                "edges": sorted([min(idx[a], idx[b]), max(idx[a], idx[b]), 2 * d["order"]] for a, b, d in bg.edges(data=True))}
    rec = {"mode": "whole", "text": text, "written": True, "f1": expected, "f2": {"outcome": obs["outcome"], "nodes": [], "edges": []},
           "wit": [], "driver": driver, "smi": smi}
    if obs["outcome"] == "ok" and obs["steps"]:
        fine = obs["steps"][-1]["fine"]
        ids = [n["id"] for n in fine["nodes"]]
        pos = {k: i for i, k in enumerate(ids)}
        rec["f2"] = {"outcome": "ok", "nodes": [[n["name"], 0, False, []] for n in fine["nodes"]],
                     "edges": sorted([min(pos[e[0]], pos[e[1]]), max(pos[e[0]], pos[e[1]]), e[2]] for e in fine["edges"])}
        rec["wit"] = graph_witness(rec["f1"], rec["f2"])
    return rec


def run_c06(tier):
    check = Check("C06", tier=tier)
    check.rule = ("catalogue and random molecules cut into blocks, the blocks grouped into 1-3 intermediate coarse levels "
                  "(random connected groupings, descriptor pairs of the right order between groups); every step of the "
                  "layered string is a trace (C06_Chain: its coarse graph is the previous fine graph; C02/C03 clauses), the "
                  "final molecule must equal the reference molecule, as must the flattened two-level string; drivers and "
                  "constructors are compared over the call histories of ResolverAPI.tla; non-trivial = >= 2 fragment levels")
    from .. import molgen
    rng = common.rng("c06")
    mols = []
    for smi in molgen.CATALOGUE:
        try:
            g = molgen.read_reference(smi)
        except Exception:
            continue
        if g.number_of_nodes() >= 3:
            mols.append((smi, g))
    nrand = 40 if tier == "quick" else 1500
    for i in range(nrand):
        g = molgen.random_molecule(rng, rng.randint(4, 12))
        if perceived_ok(g) and g.number_of_nodes() >= 3:
            mols.append(("random%d" % i, g))
    reps = 2 if tier == "quick" else 10
    recs = []
    coarse_last = []
    nstr = 0
    for smi, g in mols:
        for _ in range(reps):
            lay = molgen.layered_config(g, rng, rng.randint(1, 3), share_top=0.35 if rng.random() < 0.5 else 0.0)
            if lay is None or lay["nlevels"] == 0:
                continue
            rr, text = layered_records(g, lay, smi)
            recs += rr
            nstr += 1
            # coarse last level: the same string without its atomistic block must end in the block graph
            if lay["coarse_levels"]:
                coarse_last.append(coarse_last_record(lay, smi))
            # the flattened two-level string of the same fragmentation
            flat = cut_record(g, lay["atomistic"], legacy=True)
            flat["smi"] = smi
            flat["ref"] = {"atoms": [a[:3] + [[]] for a in flat["ref"]["atoms"]], "bonds": flat["ref"]["bonds"]}
            flat["noblocks"] = True
            flat["flat_of"] = text
            recs.append(flat)
    check.extra["layered_strings"] = nstr
    verdicts = validate_with(check, recs, extra=("noblocks", "otherfrags"))
    clauses = ["X_Accepted", "X_CoarseIsInput", "C01_Original"] + CLAUSES["C02"] + CLAUSES["C03"]
    CLAUSES["C06"] = clauses
    judge(check, "C06", recs, verdicts, nontrivial=lambda r, v: r.get("nlevels", 1) >= 2)
    # coarse last level (last_all_atom=False): final graph = the block graph of the fragmentation, for the three drivers
    wv, stats = tlc.validate("FragTextTrace", [{k: r[k] for k in ("mode", "written", "f1", "f2", "wit")} for r in coarse_last])
    check.add_tv(stats)
    for rec, v in zip(coarse_last, wv):
        check.evaluations += 1
        check.traces += 1
        check.nontrivial.add("coarse-last:" + rec["text"])
        ok = v["C08_WholeResolves"] and v["C08_Whole"]
        check.count_clause("C06_CoarseLastLevel", bool(ok))
        if not ok:
            check.violation("C06_CoarseLastLevel", {"key": "coarse-last:" + rec["text"], "text": rec["text"], "driver": rec["driver"],
                                                    "obs": {"outcome": rec["f2"]["outcome"]}}, v)
    check.extra["coarse_last_level_strings"] = len(coarse_last)
    from . import history
    history.run_histories(check, tier, ["X_Behaviour", "C06_Drivers", "C12_Function"])
    return check.finish()


# ----------------------------------------------------------------------------------------------
# C15: stereo information
# ----------------------------------------------------------------------------------------------
def explicit_h_record(smi, reftoks, base, frags, posmap):
    """no reference graph (the explicit hydrogens are atoms of the fragment text): only the C15 clauses apply, through
    the witness fine atom -> atom of the uncut text given by the mapping attribute"""
    text = render.render_graph_tokens(base) + ".{" + ",".join(
        "#" + n + "=" + render.render_fragment_tokens(t) for n, t in frags) + "}"
    obs = project.run_resolve(text, last_all_atom=True, legacy=True)
    step = obs["steps"][0] if obs["steps"] else None
    wit = []
    if step is not None:
        for n in step["fine"]["nodes"]:
            if n["map"]:
                wit.append([n["id"], posmap[(n["map"][0][0], n["map"][0][1])]])
    return {"mode": "resolve", "text": text, "level": 0, "basekind": "tokens", "base": base,
            "basegraph": {"names": [], "edges": []}, "frags": [[n, t] for n, t in frags], "fragcoarse": False,
            "legacy": True, "allAtom": True, "obs": slim_obs(step, obs["outcome"]),
            "wit": wit, "reftoks": reftoks, "smi": smi, "ncuts": len(frags) - 1, "nshared": 0, "nblocks": len(frags)}


def run_c15(tier):
    from .. import molgen
    check = Check("C15", tier=tier)
    check.rule = ("17 stereo molecules (1-2 stereo double bonds, stereocentres with x=R/S, both) x partitions into connected "
                  "blocks (all partitions for <= 4 atoms) incl. cuts at the double bond, at single bonds elsewhere and through a "
                  "slash-marked bond (mark written on both sides / one side) x random renderings (each fragment's marks follow its "
                  "own writing order) x base-graph numberings; the reference relation is FragText!FragRel of the uncut molecule; "
                  "non-trivial = at least one cut")
    rng = common.rng("c15")
    recs = []
    per = 14 if tier == "quick" else 80
    for smi in molgen.STEREO:
        g, marks, reftoks = molgen.read_stereo(smi)
        n = g.number_of_nodes()
        parts = []
        if n <= 5:
            parts = list(molgen.all_partitions(g, 4))
            rng.shuffle(parts)
            parts = parts[: per * 2]
        parts += [molgen.random_partition(g, rng, rng.randint(1, min(4, n))) for _ in range(per)]
        for block in parts:
            cfg = molgen.make_cut_config(g, block, rng, marks=marks, cutmark=rng.choice(["both", "both", "a", "b"]))
            if cfg is None:
                continue
            r = cut_record(g, cfg, legacy=True)
            r["smi"] = smi
            r["reftoks"] = reftoks
            r["marked_cuts"] = cfg["marked_cuts"]
            recs.append(r)
    nh = 0
    for smi in molgen.STEREO_H:
        reftoks, cfgs = molgen.explicit_h_configs(smi)
        for base, frags, posmap in cfgs:
            recs.append(explicit_h_record(smi, reftoks, base, frags, posmap))
            nh += 1
    check.extra["explicit_hydrogen_ligand_traces"] = nh
    verdicts = validate_with(check, recs, extra=("reftoks",))
    CLAUSES["C15"] = ["X_Accepted", "C15_Chiral", "C15_Relation", "C15_PathExists"]
    judge(check, "C15", recs, verdicts, nontrivial=lambda r, v: r.get("ncuts", 0) > 0)
    check.extra["with_relations"] = sum(1 for v in verdicts if v.get("nrel", 0) > 0)
    check.extra["cut_through_marked_bond"] = sum(1 for r in recs if r.get("marked_cuts"))
    return check.finish()


# ----------------------------------------------------------------------------------------------
# C20: faults below the base graph (any level of a multi-level string)
# ----------------------------------------------------------------------------------------------
def deep_fault_records(check, tier):
    """(i) a fragment definition removed at a random level of a layered string -> Resolve!MissingFragment at that level;
       (ii) faults inside fragment definitions (unclosed ring index / duplicate ring bond in a coarse fragment,
            annotation faults on coarse nodes and atoms) -> FragTextTrace mode fragfault."""
    from .. import molgen
    rng = common.rng("c20deep")
    n = 40 if tier == "quick" else 600
    mols = [(smi, molgen.read_reference(smi)) for smi in molgen.CATALOGUE]
    mols = [(s, g) for s, g in mols if g.number_of_nodes() >= 4]
    step_recs, frag_recs = [], []
    tries = 0
    while len(step_recs) < n and tries < 20 * n:
        tries += 1
        smi, g = rng.choice(mols)
        lay = molgen.layered_config(g, rng, rng.randint(1, 2))
        if lay is None or lay["nlevels"] == 0:
            continue
        all_frags = [list(f) for f in lay["coarse_levels"]] + [list(lay["atomistic"]["frags"])]
        lv = rng.randrange(len(all_frags))
        if len(all_frags[lv]) < 1:
            continue
        victim = rng.randrange(len(all_frags[lv]))
        removed = all_frags[lv][victim][0]
        all_frags[lv] = [f for i, f in enumerate(all_frags[lv]) if i != victim]
        if not all_frags[lv]:
            continue
        blocks = [frag_block_text(f) for f in all_frags]
        text = render.render_graph_tokens(lay["top"]) + "." + ".".join(blocks)
        obs = project.run_resolve(text, last_all_atom=True, legacy=True)
        prev_fine = None
        for i, frags in enumerate(all_frags):
            step = obs["steps"][i] if i < len(obs["steps"]) else None
            last = i == len(all_frags) - 1
            rec = {"mode": "resolve", "text": text, "level": i, "smi": smi, "removed": removed, "fault_level": lv,
                   "basekind": "tokens" if i == 0 else "graph", "base": lay["top"] if i == 0 else [],
                   "basegraph": {"names": [], "edges": []} if i == 0 else basegraph_of(prev_fine),
                   "frags": frags, "fragcoarse": not last, "legacy": True, "allAtom": last,
                   "obs": slim_obs(step, "ok" if step is not None else obs["outcome"])}
            step_recs.append(rec)
            if step is None:
                break
            prev_fine = step["fine"]
    # faults inside fragment definitions
    bad_anns = [[{"k": "w", "v": "ab=c", "eq": 2}], [{"k": "", "v": "1", "eq": 0}, {"k": "", "v": "R", "eq": 0}, {"k": "", "v": "2", "eq": 0}],
                [{"k": "w", "v": "abc", "eq": 1}], [{"k": "", "v": "x1", "eq": 0}], [{"k": "w", "v": "1", "eq": 1}, {"k": "", "v": "0.5", "eq": 0}]]
    for _ in range(n * 2):
        smi, g = rng.choice(mols)
        lay = molgen.layered_config(g, rng, 1)
        if lay is None or lay["nlevels"] == 0:
            continue
        for frags, coarse in ((lay["coarse_levels"][0], True), (lay["atomistic"]["frags"], False)):
            name, toks = rng.choice(frags)
            toks = [dict(t) for t in toks]
            atoms = [i for i, t in enumerate(toks) if t["k"] == "A"]
            kind = rng.choice(["ann", "ann", "dangling"] if coarse else ["ann"])
            i = rng.choice(atoms)
            if kind == "ann":
                t = toks[i]
                if not t["v"].startswith("["):
                    t["v"] = "[" + t["v"] + "]"
                    t["hc"] = 0
                t["a"] = [dict(e) for e in rng.choice(bad_anns)]
            else:
                used = {t["n"] for t in toks if t["k"] == "R"}
                m = [x for x in range(1, 10) if x not in used][0]
                j = i + 1
                while j < len(toks) and toks[j]["k"] == "R":
                    j += 1
                toks = toks[:j] + [render.ftok("R", "d", m)] + toks[j:]
            text = render.render_fragment_tokens(toks)
            from cgsmiles.read_fragments import read_fragments
            try:
                with project.quiet():
                    read_fragments("{#F=" + text + "}", all_atom=not coarse)
                out = "ok"
            except Exception as exc:
                out = project.outcome_of(exc)
            frag_recs.append({"mode": "fragfault", "coarse": coarse, "toks": toks, "text": text, "obs": {"outcome": out}})
    return step_recs, frag_recs


def run_c20_deep(check, tier):
    step_recs, frag_recs = deep_fault_records(check, tier)
    verdicts = validate_with(check, step_recs)
    judge(check, "C20", step_recs, verdicts, only=lambda r, v: v.get("expected") != "ok", nontrivial=lambda r, v: True)
    check.extra["missing_fragment_at_level"] = {str(l): sum(1 for r, v in zip(step_recs, verdicts)
                                                          if v.get("dom") and v.get("expected") != "ok" and r["level"] == l) for l in range(4)}
    fv, stats = tlc.validate("FragTextTrace", [{k: r[k] for k in ("mode", "coarse", "toks", "obs")} for r in frag_recs])
    check.add_tv(stats)
    kinds = {}
    for rec, v in zip(frag_recs, fv):
        check.evaluations += 1
        if not v.get("dom"):
            check.skipped += 1
            continue
        if v["expected"] == "ok":
            continue
        check.traces += 1
        check.nontrivial.add("frag:" + rec["text"])
        kinds[v["fault"]] = kinds.get(v["fault"], 0) + 1
        for c in ("C20_Raises", "C20_NoGraph"):
            check.count_clause(c, v[c])
        failed = [c for c in ("C20_Raises", "C20_NoGraph") if not v[c]]
        if failed:
            check.violation(failed[0], {"key": "frag:" + rec["text"], "site": "coarse" if rec["coarse"] else "atom",
                                        "entries": [e for t in rec["toks"] if t["k"] == "A" for e in t["a"]],
                                        "text": rec["text"], "obs": rec["obs"]}, v)
    check.extra["fragment_level_faults_by_kind"] = kinds
