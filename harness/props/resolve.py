"""
Resolve family (C01 C02 C03 C06 C09 C10 C11 C12 and the resolver part of C20):
MoleculeResolver against Resolve.tla / ResolveTrace.tla.
"""
import glob
import os
import re

from .. import common, tlc, render, project, mc
from ..report import Check

TRACE_FIELDS = ("mode", "basekind", "base", "basegraph", "frags", "fragcoarse", "legacy", "allAtom", "obs",
                "ref", "wit")


# ----------------------------------------------------------------------------------------------
# parsing complete multi-level strings into token form
# ----------------------------------------------------------------------------------------------
def split_levels(text):
    return re.findall(r"\{[^\}]+\}", text)


def parse_fragment_block(block, coarse):
    """'{#A=...,#B=...}' -> [[name, tokens], ...] (raises Untokenizable)"""
    out = []
    for part in block[1:-1].split(","):
        delim = part.find("=")
        name = part[1:delim]
        body = part[delim + 1:]
        if delim < 0 or not part.startswith("#") or not re.fullmatch(r"\w+", name):
            raise render.Untokenizable(block)
        toks = render.tokenize_fragment(body, coarse)
        if render.render_fragment_tokens(toks) != body:
            raise render.Untokenizable(block)
        out.append([name, toks])
    return out


def parse_string(text, last_all_atom=True):
    levels = split_levels(text.replace("\n", "").replace(" ", ""))
    if not levels:
        raise render.Untokenizable(text)
    base = render.tokenize_graph(levels[0])
    if render.render_graph_tokens(base) != levels[0]:
        raise render.Untokenizable(text)
    frags = []
    for i, blk in enumerate(levels[1:]):
        coarse = not (last_all_atom and i == len(levels) - 2)
        frags.append((parse_fragment_block(blk, coarse), coarse))
    return base, frags


def basegraph_of(fine):
    """the coarse graph of the next step = this step's fine graph"""
    names = [n["name"] for n in fine["nodes"]]
    edges = [[e[0], e[1], e[2] // 2] for e in fine["edges"]]
    return {"names": names, "edges": edges}


def slim_obs(step, outcome="ok"):
    if step is None:
        return {"outcome": outcome, "coarse": {"nodes": [], "edges": []}, "fine": {"nodes": [], "edges": []}}
    return {"outcome": outcome, "coarse": step["coarse"], "fine": {"nodes": step["fine"]["nodes"], "edges": step["fine"]["edges"]}}


def records_for_string(text, last_all_atom=True, legacy=True, obs=None):
    """One trace record per resolution step of the string (C06_Chain: step k+1's coarse graph is step k's fine graph)."""
    base, frags = parse_string(text, last_all_atom)
    clean = text.replace("\n", "").replace(" ", "")
    if obs is None:
        obs = project.run_resolve(clean, last_all_atom=last_all_atom, legacy=legacy)
    recs = []
    prev_fine = None
    for i, (frag, coarse) in enumerate(frags):
        step = obs["steps"][i] if i < len(obs["steps"]) else None
        failed_here = step is None
        rec = {"mode": "resolve", "text": clean, "level": i,
               "basekind": "tokens" if i == 0 else "graph",
               "base": base if i == 0 else [],
               "basegraph": {"names": [], "edges": []} if i == 0 else basegraph_of(prev_fine),
               "frags": frag, "fragcoarse": coarse, "legacy": legacy,
               "allAtom": bool(last_all_atom and i == len(frags) - 1),
               "obs": slim_obs(step, "ok" if not failed_here else obs["outcome"])}
        recs.append(rec)
        if failed_here:
            break
        prev_fine = step["fine"]
    return recs


def repo_full_strings():
    out = []
    pats = [os.path.join(common.REPO, "cgsmiles", "tests", "*.py"),
            os.path.join(common.REPO, "docs", "source", "**", "*.rst"),
            os.path.join(common.REPO, "README.rst")]
    for pat in pats:
        for f in glob.glob(pat, recursive=True):
            try:
                txt = open(f, encoding="utf8", errors="replace").read()
            except OSError:
                continue
            for m in re.finditer(r"\{\[#[^{}\n]*\}(?:\s*\.\s*\{#[^{}]*\})+", txt):
                out.append(re.sub(r"\s+", "", m.group(0)).replace("\\\\", "\\"))
    seen, uniq = set(), []
    for s in out:
        if s not in seen:
            seen.add(s)
            uniq.append(s)
    return uniq


def validate(check, records):
    slim = [{k: r[k] for k in TRACE_FIELDS if k in r} for r in records]
    verdicts, stats = tlc.validate("ResolveTrace", slim, batch=max(1, min(60, (len(slim) + common.NCPU - 1) // common.NCPU)),
                                   xmx="3g", timeout=1800)
    check.add_tv(stats)
    return verdicts


# ----------------------------------------------------------------------------------------------
# configurations enumerated by TLC (ResolveMC) and their replay
# ----------------------------------------------------------------------------------------------
_LIBS = None


def libs():
    """ResolveLibs as Python data: evaluated by TLC once (the spec is the source of truth)."""
    global _LIBS
    if _LIBS is None:
        d = common.scratch("libs-")
        for f in os.listdir(common.SPEC):
            if f.endswith(".tla"):
                os.symlink(os.path.join(common.SPEC, f), os.path.join(d, f))
        with open(os.path.join(d, "LibDump.tla"), "w") as fh:
            fh.write("---- MODULE LibDump ----\nEXTENDS ResolveLibs, TLC, Json\nVARIABLE x\n"
                     "Init == x = 0 /\\ PrintT(<<\"L\", 0, ToJson(AllLibs)>>)\nNext == UNCHANGED x\n====\n")
        with open(os.path.join(d, "LibDump.cfg"), "w") as fh:
            fh.write("INIT Init\nNEXT Next\nCHECK_DEADLOCK FALSE\n")
        r = tlc.run("LibDump", cfg="LibDump", cwd=d, workers=1)
        _LIBS = [p for t, i, p in r.printed if t == "L"][0]
    return _LIBS


def config_text(base, lib):
    return render.render_graph_tokens(base) + "." + lib["text"]


def config_record(base, lib, legacy):
    text = config_text(base, lib)
    all_atom = not lib["coarse"]
    obs = project.run_resolve(text, last_all_atom=all_atom, legacy=legacy)
    step = obs["steps"][0] if obs["steps"] else None
    return {"mode": "resolve", "text": text, "level": 0, "basekind": "tokens", "base": base,
            "basegraph": {"names": [], "edges": []}, "frags": lib["frags"], "fragcoarse": lib["coarse"],
            "legacy": legacy, "allAtom": all_atom,
            "obs": slim_obs(step, obs["outcome"]), "lib": lib["name"]}


RMC_CONSTS = {
    "quick": dict(MaxLen=5, NodeToks="NodesABV", SymToks="SymDotEq", RingToks="Rings1", MultCounts="NoMult",
                  MaxDepth=1, MaxOpen=1, EmitAll="FALSE", MaxNodes=3, LibSel="LibsAll"),
    "thorough": dict(MaxLen=7, NodeToks="NodesABV", SymToks="SymDotEq", RingToks="Rings1", MultCounts="NoMult",
                     MaxDepth=1, MaxOpen=1, EmitAll="FALSE", MaxNodes=4, LibSel="LibsAll"),
}


def enumerate_configs(check, tier):
    consts = RMC_CONSTS[tier]
    d = mc.write_cfg("rmc", consts, ["REmit"])
    # ResolveMC uses its own Init/Next
    cfgp = os.path.join(d, "rmc.cfg")
    txt = open(cfgp).read().replace("SPECIFICATION Spec", "SPECIFICATION Spec2")
    open(cfgp, "w").write(txt)
    r = tlc.run("ResolveMC", cfg="rmc", workers=common.NCPU, cwd=d, xmx="6g", timeout=1800)
    check.add_mc("ResolveMC/" + tier, r, consts)
    L = libs()
    seen, out = set(), []
    for t, ints, p in r.printed:
        if t != "G":
            continue
        key = (render.render_graph_tokens(p["base"]), p["lib"], p["legacy"])
        if key in seen:
            continue
        seen.add(key)
        out.append((p["base"], L[p["lib"] - 1], p["legacy"]))
    return out
