"""
./check selftest : demonstrates the binding between specification and implementation.

(a) Trace corruption: for every trace specification a handful of genuine, accepted traces are recorded from the
    current tree, ONE recorded field is corrupted (an edge order, a descriptor string, a membership id, a hydrogen,
    a growth event's partner, a leftover descriptor, a digest, a coordinate owner ...) and the verdict must flip
    with the expected clause.  A trace spec that constrained nothing would accept the corrupted trace.
(b) Vacuity: the clause vectors of the accepted traces must contain clauses whose antecedent was true
    (e.g. at least one Dedicated configuration, one shared atom, one hydrogen, one multi-step growth).
Exit 0 if every corruption is rejected with the expected clause, 1 otherwise.
"""
import copy
import json

from . import common, tlc, project, render
from .report import Check


def _expect(name, verdict_ok, verdict_bad, clause, results):
    ok_before = verdict_ok.get(clause, None) is True
    flipped = verdict_bad.get(clause, None) is False
    results.append((name, clause, ok_before, flipped))
    print(("ok   " if ok_before and flipped else "FAIL ") + f"{name}: {clause} accepted={ok_before} rejected_after_corruption={flipped}")


def run(tier):
    results = []
    # ---- CGGraphTrace: edge order / node name / outcome -----------------------------------------
    from .props import graph
    toks = render.tokenize_graph("{[#A]=1[#B;q=1]([#C].[#D])[#A]1}")
    rec = graph.read_record(toks)
    bad1 = copy.deepcopy(rec)
    [e for e in bad1["obs"]["edges"] if e[2] == 2][0][2] = 1          # the ring bond's order 2 -> 1
    bad2 = copy.deepcopy(rec)
    bad2["obs"]["nodes"][1]["attrs"] = [p for p in bad2["obs"]["nodes"][1]["attrs"] if p[0] != "charge"] + [["charge", "0.0"]]
    c = Check("selftest")
    v = graph.validate(c, [rec, bad1, bad2])
    _expect("reader: ring bond order corrupted", v[0], v[1], "C04_Orders", results)
    _expect("reader: annotation value corrupted", v[0], v[2], "C04_Attrs", results)
    # ---- FragTextTrace ---------------------------------------------------------------------------
    from .props import frag
    ft = render.tokenize_fragment("[$a]C=[>b]C1CC1[!]", False)
    r = frag.strip_record(ft, False)
    b = copy.deepcopy(r)
    b["obs"]["desc"][0][1][1] = ">b1"        # order 2 -> 1
    b2 = copy.deepcopy(r)
    b2["obs"]["clean"] = b2["obs"]["clean"].replace("C1CC1", "C1CC")
    vs, _ = tlc.validate("FragTextTrace", [{k: x[k] for k in frag.FIELDS} for x in (r, b, b2)])
    _expect("tokenizer: descriptor order corrupted", vs[0], vs[1], "C13_Desc", results)
    _expect("tokenizer: ring digit dropped from clean text", vs[0], vs[2], "C13_Clean", results)
    # ---- ResolveTrace ----------------------------------------------------------------------------
    from .props import resolve
    recs = resolve.records_for_string("{[#A][#B]=[#A]}.{#A=[$a]CC[$b]=[$c],#B=[$c]=C[$b][$a]O}")
    good = recs[0]
    variants = []
    x = copy.deepcopy(good)      # membership of one atom moved to another coarse node
    x["obs"]["fine"]["nodes"][0]["fragid"] = [1]
    variants.append(("resolver: fragid corrupted", x, "C02_Graph"))
    x = copy.deepcopy(good)      # a bond's descriptor pair relabelled
    for e in x["obs"]["fine"]["edges"]:
        if e[3]:
            e[3] = ["$zz1", "$zz1"]
            break
    variants.append(("resolver: bonding label corrupted", x, "C03_Carried"))
    x = copy.deepcopy(good)      # a hydrogen removed
    h = [n for n in x["obs"]["fine"]["nodes"] if n["isH"]][0]["id"]
    x["obs"]["fine"]["nodes"] = [n for n in x["obs"]["fine"]["nodes"] if n["id"] != h]
    x["obs"]["fine"]["edges"] = [e for e in x["obs"]["fine"]["edges"] if h not in (e[0], e[1])]
    for cn in x["obs"]["coarse"]["nodes"]:
        cn["graph"] = [i for i in cn["graph"] if i != h]
    variants.append(("resolver: one hydrogen removed", x, "C09_Complete"))
    x = copy.deepcopy(good)      # an extra bond between fragments that are not neighbours... (0 and 2 are: use a duplicate pair)
    first = [e for e in x["obs"]["fine"]["edges"] if e[3]][0]
    x["obs"]["fine"]["edges"].append([first[0], [n["id"] for n in x["obs"]["fine"]["nodes"] if n["fragid"] == [2] and not n["isH"]][0], 2, first[3]])
    variants.append(("resolver: a descriptor used for a second bond", x, "C03_Once"))
    vs = resolve.validate(Check("selftest"), [good] + [v[1] for v in variants])
    for i, (name, _, clause) in enumerate(variants):
        _expect(name, vs[0], vs[i + 1], clause, results)
    # ---- SamplerTrace ----------------------------------------------------------------------------
    from . import sampleobs
    from .samplercfgs import CONFIGS
    from .props import sampler
    lr = sampleobs.install()
    cfg = [c for c in CONFIGS if c["name"] == "brush"][0]
    rec, rrec = None, None
    for seed in range(20):
        rec, rrec = sampleobs.observe(cfg, seed, cfg["targets"][0], lr)
        if rec is not None and len(rec["events"]) >= 3:
            break
    b = copy.deepcopy(rec)
    b["events"][1]["p"] = [b["events"][1]["p"][0], "nolabel", b["events"][1]["p"][2]]
    b2 = copy.deepcopy(rec)
    b2["final_open"][0][2] = b2["final_open"][0][2] + [["$", "A", 1]]
    b3 = copy.deepcopy(rec)
    if b3["draws"]:
        b3["draws"][0]["site_pop"][0][1] = not b3["draws"][0]["site_pop"][0][1]     # positivity of one offered weight
    vs = sampler.validate_sampler(Check("selftest"), [rec, b, b2, b3])

    def sv(v):
        return {c: (c not in v["failed"]) for c in sampler.C16_STEP | sampler.C17_ALL}
    _expect("sampler: partner descriptor of a growth event corrupted", sv(vs[0]), sv(vs[1]), "C16_Complementary", results)
    _expect("sampler: leftover descriptor added", sv(vs[0]), sv(vs[2]), "C17_TerminalBookkeeping", results)
    if rec["draws"]:
        _expect("sampler: positivity of one offered weight in the RNG log flipped", sv(vs[0]), sv(vs[3]), "C17_NeverZeroSite", results)
    # ---- ResolverAPITrace ------------------------------------------------------------------------
    from .props import history
    ref = history.reference()
    h = [{"op": "new", "obj": 1, "inp": 1, "ctor": "from_string"}, {"op": "resolve", "obj": 1, "inp": 1, "ctor": "from_string"},
         {"op": "resolve", "obj": 1, "inp": 1, "ctor": "from_string"}]
    ev = history.worker([h], 0)[0]
    levels = [history.INPUTS[i]["levels"] for i in sorted(history.INPUTS)]
    t = {"levels": levels, "events": ev, "reference": ref}
    tb = copy.deepcopy(t)
    tb["events"][2]["yields"][0][1] = "0" * 16
    tb2 = copy.deepcopy(t)
    tb2["events"][2]["lib"] = "f" * 16
    vs, _ = tlc.validate("ResolverAPITrace", [t, tb, tb2])
    _expect("histories: digest of a yielded level corrupted", vs[0], vs[1], "C12_Function", results)
    _expect("histories: library digest changed", vs[0], vs[2], "C12_LibraryUntouched", results)
    # ---- GeomTrace -------------------------------------------------------------------------------
    from .props import geom
    meta, mol = geom.resolved("{[#A][#B]}.{#A=[$]C(=O)[O-],#B=[$]CC[NH3+]}")
    e = geom.embed_record(mol, "t")
    eb = copy.deepcopy(e)
    eb["nodes"][0][2], eb["nodes"][1][2] = eb["nodes"][1][2], eb["nodes"][0][2]
    f = geom.fmap_record("{[#A][#B]}.{#A=[$][C;0.5]C[O;w=0.25],#B=[$][N;w=2]C}", "t")
    fb = copy.deepcopy(f)
    fb["coeff"][0][2] += 1
    vs, _ = tlc.validate("GeomTrace", [{k: v for k, v in r.items() if k != "tag"} for r in (e, eb, f, fb)])
    import networkx as nx
    lay = geom.layout_record(nx.path_graph(5), 1.0, 7, "path5", align=(1.0, 0.0))
    layb = copy.deepcopy(lay)
    layb["align_ppm"] = 500000                                   # as if the drawing stood at 30 degrees to the requested axis
    lvs, _ = tlc.validate("GeomTrace", [{k: v for k, v in r.items() if k not in ("tag", "bond", "seed")} for r in (lay, layb)])
    _expect("layout: longest extent off the requested axis", lvs[0], lvs[1], "X_Aligned", results)
    _expect("bridge: two nodes' coordinate owners swapped", vs[0], vs[1], "C18_OwnPosition", results)
    _expect("forward map: one coefficient perturbed", vs[2], vs[3], "C18_BeadIsNormalisedAverage", results)
    # ---- GraphOps (spec -> code): one expected key / one returned fragment corrupted ----------------
    from .props import graphops
    opq = lambda n, a=0, b=0, c=0: {"op": n, "a": a, "b": b, "c": c}
    beh = {"ops": [opq("merge", 2), opq("merge", 2), opq("squash", 0, 2), opq("sort"), opq("annotate")],
           "nodes": [{"key": 1, "fid": [0, 1], "el": "C", "ez": []}, {"key": 0, "fid": [0], "el": "O", "ez": []},
                     {"key": 2, "fid": [1], "el": "O", "ez": []}],
           "edges": [[0, 1, 1], [1, 2, 1]],
           "out": {"kind": "meta", "v": [{"nodes": [0, 1], "edges": [[0, 1]]}, {"nodes": [1, 2], "edges": [[1, 2]]}]}}
    g0 = graphops._one(beh)
    b1 = copy.deepcopy(beh)
    b1["nodes"][0]["key"], b1["nodes"][1]["key"] = 0, 1        # as if the shared atom kept its old place
    b2 = copy.deepcopy(beh)
    b2["out"]["v"][1]["nodes"] = [2]                           # as if the shared atom belonged to the first fragment only
    _expect("graph bookkeeping: key of the shared atom after sorting corrupted", g0, graphops._one(b1), "X_GraphOps_Nodes", results)
    _expect("graph bookkeeping: fragment of the shared atom dropped from annotate", g0, graphops._one(b2), "X_GraphOps_Returned", results)
    # ---- OpenBonds (spec -> code): one expected node list / one expected complement corrupted ----------
    from .props import openbonds
    ob = {"mol": [[["$", "", 1], ["<", "A", 1]], [["$", "", 1]]],
          "views": [{"targets": [1, 2], "open": [[["$", "", 1], [1, 2]], [["<", "A", 1], [1]]]}]}
    ob1 = copy.deepcopy(ob)
    ob1["views"][0]["open"][0][1] = [1]                         # as if only the first carrier of '$1' were listed
    _expect("open bonds: second carrier of a descriptor dropped", openbonds._mol((0, ob)), openbonds._mol((0, ob1)), "X_OpenBonds_Dict", results)
    cp = {"d": ["<", "A", 1], "E": [[">", "A", 1], ["$", "", 1]], "res": {"ok": True, "out": [[">", "A", 1]]}}
    cp1 = copy.deepcopy(cp)
    cp1["res"]["out"] = [["<", "A", 1]]                         # as if '<' paired with itself
    _expect("open bonds: complement of '<A1' corrupted", openbonds._compl(cp), openbonds._compl(cp1), "X_OpenBonds_Complementary", results)
    # ---- (b) vacuity: every action of every design model is taken at least once (TLC -coverage 1) ----
    import re
    from . import mc
    models = [("ResolveDesign", dict(MaxNodes=2, Orders="Ord012", TemplateNames="TN6"), "Spec"),
              ("SamplerMC", dict(CfgIds="IdsAll", TargetIdx=1, MaxSteps=3), "Spec"),
              ("ResolverAPI", dict(Inputs="{1, 4}", Levels="Lv", MaxObjs=2, MaxEvents=4, Ctors="CtorsAll", OtherKinds="OthersQ"), "Spec"),
              ("Writer", dict(MaxN=3, Orders="Ord012"), "Spec"),
              ("GraphOps", dict(Templates="TplQ", MaxOps=4, MaxNodes=6, MaxMerges=3), "Spec"),
              ("OpenBonds", dict(Descs="DescsMol", CDescs="DescsQ", MaxNodes=2, MaxPerNode=2, MaxSteps=3), "Spec"),
              ("CGGraphMC", dict(MaxLen=5, NodeToks="Nodes2", SymToks="SymQuick", RingToks="Rings1", MultCounts="Mult2",
                                 MaxDepth=1, MaxOpen=1, EmitAll="FALSE"), "Spec"),
              ("FragTextMC", dict(MaxLen=3, AtomToks="AtomsQ", DescToks="DescQ", SymToks="SymsQ", RingToks="RingsQ",
                                  SlashToks="NoSlash", Coarse="FALSE", MaxDepth=1, MaxDesc=2), "Spec")]
    for module, consts, _ in models:
        d = mc.write_cfg("cov", consts, [])
        import os
        cfgp = os.path.join(d, "cov.cfg")
        txt = open(cfgp).read().replace("Inputs <- ", "Inputs = ")
        open(cfgp, "w").write(txt)
        r = tlc.run(module, cfg="cov", workers=4, cwd=d, coverage=True, timeout=600)
        acts = {}
        for line in r.stdout.splitlines():
            m = re.match(r"^<(\w+) line \d+, col \d+ to line \d+, col \d+ of module (\w+)(?: \([\d ]+\))?>: (\d+):(\d+)", line)
            if m:
                acts[m.group(1)] = max(acts.get(m.group(1), 0), int(m.group(4)))
        never = sorted(a for a, n in acts.items() if n == 0)
        ok = bool(acts) and not never
        results.append(("vacuity: every action of " + module + " is taken", "coverage", ok, ok))
        print(("ok   " if ok else "FAIL ") + f"vacuity {module}: actions {acts}" + (f" NEVER TAKEN: {never}" if never else ""))
    bad = [r for r in results if not (r[2] and r[3])]
    print(f"selftest: {len(results) - len(bad)}/{len(results)} corruptions rejected with the expected clause / models non-vacuous")
    common.dump_json(common.VERIF + "/evidence/selftest.json", {"results": results, "seed": common.SEED})
    return 1 if bad else 0
