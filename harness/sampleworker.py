"""Runs construct-and-sample histories in THIS (fresh) process and prints digests: stdin = list of histories,
each a list of [config index, seed, target]."""
import json
import sys

from . import common  # noqa: F401
from . import project
from .histworker import digest
from .samplercfgs import CONFIGS
from .sampleobs import run_sampler


def main():
    hists = json.load(sys.stdin)
    out = []
    for h in hists:
        events = []
        for ci, seed, target in h:
            res = run_sampler(CONFIGS[ci], seed, target, None)
            dg = digest(res["mol"]) if res["outcome"] == "ok" else res["outcome"]
            events.append({"key": "%s/%s/%s" % (CONFIGS[ci]["name"], seed, target), "digest": dg})
        out.append(events)
    json.dump(out, sys.stdout)


if __name__ == "__main__":
    main()
