"""
TLC runner: exhaustive / simulation runs of the MC modules, and batch trace validation.

All TLC output that matters is printed by the specs themselves with PrintT(<<TAG, ..., ToJson(x)>>);
this module only starts the JVM, splits batches over the cores and parses those lines back.
"""
import json
import os
import re
import shutil
import subprocess
import sys
from concurrent.futures import ThreadPoolExecutor

from . import common

JAR = "/opt/veriftools/tla/tla2tools.jar"
DEPS = "/opt/veriftools/tla/CommunityModules-deps.jar"


class TLCError(Exception):
    """Machinery failure (not a property verdict)."""


_STATS = re.compile(r"^(\d+) states generated, (\d+) distinct states found")
_TUPLE = re.compile(r'^<<"([A-Za-z0-9_]+)"((?:, -?\d+)*)(?:, (".*"))?>>$')


def _parse_line(line):
    m = _TUPLE.match(line)
    if not m:
        return None
    tag = m.group(1)
    ints = [int(x) for x in m.group(2).split(",")[1:]] if m.group(2) else []
    payload = None
    if m.group(3) is not None:
        try:
            payload = json.loads(json.loads(m.group(3)))
        except Exception as exc:  # pragma: no cover
            raise TLCError(f"unparsable TLC payload: {line[:200]} ({exc})")
    return tag, ints, payload


class Result:
    def __init__(self):
        self.printed = []        # (tag, ints, payload)
        self.generated = 0
        self.distinct = 0
        self.errors = []         # TLC error text blocks (invariant violations, evaluation errors)
        self.violated = []       # names of violated invariants / properties
        self.stdout = ""
        self.coverage = {}
        self.rc = None
        self.wall = 0.0


def run(module, cfg=None, env=None, workers=1, simulate=None, depth=None, seed=None,
        timeout=900, xmx="3g", coverage=False, keep_going=False, deque=False, cwd=None):
    """Run TLC on spec/<module>.tla with spec/<cfg>.cfg."""
    cwd = cwd or common.SPEC
    meta = common.scratch("tlcmeta-")
    cmd = ["java", "-XX:+UseParallelGC", f"-Xmx{xmx}", "-Xss64m"]     # deep recursive operators on long traces
    if deque:
        cmd.append("-Dtlc2.tool.queue.IStateQueue=StateDeque")
    cmd += ["-cp", f"{JAR}:{DEPS}", "tlc2.TLC", "-workers", str(workers), "-metadir", meta,
            "-noGenerateSpecTE", "-config", (cfg or module) + ".cfg"]
    if simulate:
        cmd += ["-simulate", simulate]
    if depth:
        cmd += ["-depth", str(depth)]
    if seed is not None:
        cmd += ["-seed", str(seed)]
    if coverage:
        cmd += ["-coverage", "1"]
    if keep_going:
        cmd += ["-continue"]
    cmd.append(module + ".tla")
    e = dict(os.environ)
    e.pop("JAVA_TOOL_OPTIONS", None)
    if env:
        e.update({k: str(v) for k, v in env.items()})
    t = common.Timer()
    try:
        p = subprocess.run(cmd, cwd=cwd, env=e, capture_output=True, text=True, timeout=timeout)
        out, rc = p.stdout + p.stderr, p.returncode
    except subprocess.TimeoutExpired as exc:
        out = (exc.stdout or b"").decode("utf8", "replace") if isinstance(exc.stdout, bytes) else (exc.stdout or "")
        rc = -9
        if not simulate:
            shutil.rmtree(meta, ignore_errors=True)
            raise TLCError(f"TLC timeout after {timeout}s on {module}")
    finally:
        shutil.rmtree(meta, ignore_errors=True)
    r = Result()
    r.stdout, r.rc, r.wall = out, rc, t()
    err_block = None
    for line in out.splitlines():
        if line.startswith('<<"'):
            parsed = _parse_line(line)
            if parsed:
                r.printed.append(parsed)
                continue
        m = _STATS.match(line)
        if m:
            r.generated, r.distinct = int(m.group(1)), int(m.group(2))
        if line.startswith("Error:"):
            err_block = [line]
            r.errors.append(err_block)
            mm = re.search(r"Invariant (\w+) is violated", line)
            if mm:
                r.violated.append(mm.group(1))
            mm = re.search(r"property (\w+) is violated|Action property (\w+)", line)
            if mm:
                r.violated.append(mm.group(1) or mm.group(2))
        elif err_block is not None and len(err_block) < 60:
            err_block.append(line)
    r.errors = ["\n".join(b) for b in r.errors]
    if simulate is None and rc not in (0, 12, 13) and not r.errors:
        raise TLCError(f"TLC failed rc={rc} on {module}:\n{out[-3000:]}")
    return r


def validate(module, records, cfg=None, batch=None, timeout=900, xmx="2g", tag="V", env=None):
    """
    Batch trace validation: `records` (list of JSON-able dicts) are split over the cores, each
    batch is written to a file read by the trace spec through IOEnv.TRACE_FILE, and the verdict
    lines <<"V", tid, json>> are collected.  Returns (verdicts[list aligned with records], stats).
    Every record must get a verdict, otherwise this is a machinery failure.
    """
    n = len(records)
    if n == 0:
        return [], {"generated": 0, "distinct": 0, "runs": 0}
    if batch is None:
        batch = max(1, min(400, (n + common.NCPU - 1) // common.NCPU))
    d = common.scratch("tlctrace-")
    jobs = []
    for i in range(0, n, batch):
        path = os.path.join(d, f"b{i}.json")
        with open(path, "w") as fh:
            json.dump(records[i:i + batch], fh)
        jobs.append((i, path, len(records[i:i + batch])))

    def one(job):
        off, path, cnt = job
        ee = {"TRACE_FILE": path}
        if env:
            ee.update(env)
        r = run(module, cfg=cfg or module, env=ee, workers=1, timeout=timeout, xmx=xmx)
        got = {}
        for t, ints, payload in r.printed:
            if t == tag and ints:
                got[ints[0]] = payload
        if r.errors or len(got) != cnt:
            raise TLCError(f"trace validation {module} batch@{off}: {len(got)}/{cnt} verdicts; "
                           f"errors={r.errors[:1]}\n{r.stdout[-2500:]}")
        return off, got, r

    verdicts = [None] * n
    gen = dis = 0
    with ThreadPoolExecutor(max_workers=common.NCPU) as ex:
        for off, got, r in ex.map(one, jobs):
            gen += r.generated
            dis += r.distinct
            for tid, v in got.items():
                verdicts[off + tid - 1] = v
    shutil.rmtree(d, ignore_errors=True)
    return verdicts, {"generated": gen, "distinct": dis, "runs": len(jobs)}


def sany(module):
    p = subprocess.run(["java", "-cp", f"{JAR}:{DEPS}", "tla2sany.SANY", module + ".tla"],
                       cwd=common.SPEC, capture_output=True, text=True)
    ok = p.returncode == 0 and "Semantic errors" not in p.stdout and "Parse Error" not in p.stdout \
        and "*** Errors" not in p.stdout and "Fatal errors" not in p.stdout
    return ok, p.stdout + p.stderr


if __name__ == "__main__":
    bad = 0
    for f in sorted(os.listdir(common.SPEC)):
        if f.endswith(".tla"):
            ok, out = sany(f[:-4])
            print(("ok   " if ok else "FAIL ") + f)
            if not ok:
                bad += 1
                print(out[-1500:])
    sys.exit(1 if bad else 0)
