"""Generic driver for the XMC modules: write a cfg from constants, run TLC, collect emitted inputs."""
import os

from . import common, tlc


def write_cfg(name, consts, invariants, properties=(), spec="Spec"):
    d = common.scratch("cfg-")
    for f in os.listdir(common.SPEC):
        if f.endswith(".tla"):
            os.symlink(os.path.join(common.SPEC, f), os.path.join(d, f))
    lines = ["SPECIFICATION " + spec, "CONSTANTS"]
    for k, v in consts.items():
        if isinstance(v, str) and v not in ("TRUE", "FALSE") and not v.startswith('"'):
            lines.append(f"  {k} <- {v}")
        else:
            lines.append(f"  {k} = {v}")
    for inv in invariants:
        lines.append(f"INVARIANT {inv}")
    for pr in properties:
        lines.append(f"PROPERTY {pr}")
    lines.append("CHECK_DEADLOCK FALSE")
    with open(os.path.join(d, name + ".cfg"), "w") as fh:
        fh.write("\n".join(lines) + "\n")
    return d


def run(check, module, key, consts, invariants, emit="Emit", simulate=None, depth=None, seed=None,
        timeout=1500, dedupe=None, workers=None, xmx="6g", tag="G", properties=(), spec="Spec"):
    """Run module with the constants; returns (payloads, result)."""
    invs = list(invariants) + ([emit] if emit else [])
    name = "mc_" + key
    d = write_cfg(name, consts, invs, properties=properties, spec=spec)
    r = tlc.run(module, cfg=name, workers=workers or (common.NCPU if simulate is None else 1),
                simulate=simulate, depth=depth, seed=seed, timeout=timeout, cwd=d, xmx=xmx)
    check.add_mc(module + "/" + key + ("/simulate" if simulate else ""), r, consts)
    out, seen = [], set()
    for t, ints, payload in r.printed:
        if t != tag:
            continue
        k = dedupe(payload) if dedupe else None
        if k is not None:
            if k in seen:
                continue
            seen.add(k)
        out.append(payload)
    return out, r
