"""
Known findings: genuine defects of the unchanged tree that are recorded rather than repaired.

An entry of /verif/known_findings.json:
  id, property, status ("known" | "fixed"), what, scope (name of a structural predicate over the
  input, implemented in SCOPES below), signature (list of accepted failure signatures:
  "clause:<name>", "exc:<Type>", "deviation:<name>"), witness (concrete inputs).
A failing trace is a known finding only if the input satisfies the scope AND the failure matches
a signature.  For "deviation:<name>" the trace spec must have reported that the named deviation
of the specification explains the whole observation (verdict["dev_<name>"] is TRUE).
The file is never written at run time.
"""
import json
import os

from . import common

_PATH = os.path.join(common.VERIF, "known_findings.json")
_cache = None

SCOPES = {}
WITNESS_RUNNERS = {}


def scope(name):
    def deco(fn):
        SCOPES[name] = fn
        return fn
    return deco


def witness_runner(name):
    def deco(fn):
        WITNESS_RUNNERS[name] = fn
        return fn
    return deco


def load():
    global _cache
    if _cache is None:
        try:
            with open(_PATH) as fh:
                _cache = json.load(fh)["findings"]
        except FileNotFoundError:
            _cache = []
    return _cache


def listed(pid):
    return [k for k in load() if k["property"] == pid and k.get("status") == "known"]


def _sig_ok(sig, clause, record, verdict):
    kind, _, name = sig.partition(":")
    if kind == "clause":
        return clause == name
    if kind == "exc":
        return (record.get("obs") or {}).get("outcome") == "exc:" + name or \
               (verdict or {}).get("outcome") == "exc:" + name
    if kind == "deviation":
        return bool((verdict or {}).get("dev_" + name))
    return False


def match(pid, clause, record, verdict):
    for kf in listed(pid):
        pred = SCOPES.get(kf["scope"])
        if pred is None:
            continue
        try:
            inscope = pred(record)
        except Exception:
            inscope = False
        if not inscope:
            continue
        clauses = kf.get("clauses")
        if clauses and clause not in clauses:
            continue
        if any(_sig_ok(s, clause, record, verdict) for s in kf["signature"]):
            return kf
    return None


def witness_still_fails(kf):
    fn = WITNESS_RUNNERS.get(kf.get("runner", ""))
    if fn is None:
        return None
    try:
        return bool(fn(kf))
    except Exception:
        return None


# ------------------------------------------------------------------------------------------
# structural scope predicates (mirrored by TLA+ predicates of the same meaning)
# ------------------------------------------------------------------------------------------
def _toks(record):
    return record.get("toks") or []


@scope("graph.double_branch_close")
def _double_close(record):
    """CGGraph!HasDoubleClose: a ')' token immediately followed by ')' (after expansion too)."""
    ts = record.get("long") or _toks(record)
    return any(a["k"] == ")" and b["k"] == ")" for a, b in zip(ts, ts[1:]))


@witness_runner("graph.read")
def _run_graph_read(kf):
    """True while read_cgsmiles still gives something else than the expected edges."""
    from . import project
    bad = False
    for w in kf["witness"]:
        obs, _ = project.run_read(w["text"])
        if obs["outcome"] != "ok" or obs["edges"] != w["expected_edges"]:
            bad = True
    return bad


# ---- multiplier structure (mirror of CGGraph!UnitOf, used only to delimit known findings) ----
def unit_of(ts, i):
    """(start, stop) of the unit of the multiplier at index i (0-based), or None."""
    has_sep = i >= 2 and ts[i - 1]["k"] == "B" and ts[i - 2]["k"] == ")"
    j = i - 2 if has_sep else i - 1
    if j < 0:
        return None
    if ts[j]["k"] == "N" and not has_sep:
        return (j, j)
    if ts[j]["k"] == ")":
        depth, p = 0, j
        while p >= 0:
            if ts[p]["k"] == ")":
                depth += 1
            elif ts[p]["k"] == "(":
                depth -= 1
                if depth == 0:
                    break
            p -= 1
        # the anchoring node, possibly with its own multiplier and a bond symbol in between: N [M] [B] (
        q = p - 1
        if q >= 0 and ts[q]["k"] == "B":
            q -= 1
        if q >= 0 and ts[q]["k"] == "M":
            q -= 1
        if q >= 0 and ts[q]["k"] == "N":
            return (q, j)
    return None


def mult_features(ts):
    f = set()
    for i, t in enumerate(ts):
        if t["k"] != "M":
            continue
        u = unit_of(ts, i)
        if u is None or u[0] == u[1]:
            continue
        inner = ts[u[0]:u[1] + 1]
        p = next(k for k in range(u[0], u[1] + 1) if ts[k]["k"] == "(")
        for k, x in enumerate(inner):
            if x["k"] == "M":
                uu = unit_of(inner, k)
                if uu is not None and uu[0] != uu[1]:
                    f.add("mult_branch_in_mult_branch")
        if p + 2 <= u[1] and (ts[p + 2]["k"] == "(" or
                              (ts[p + 2]["k"] == "B" and p + 3 <= u[1] and ts[p + 3]["k"] == "(")):
            f.add("nested_branch_on_first_of_mult_branch")
        if ts[u[1] - 1]["k"] == ")":
            f.add("double_close_before_mult")
        depth = mx = 0
        for k in range(u[0], u[1] + 1):
            if ts[k]["k"] == "(":
                depth += 1
                mx = max(mx, depth)
            elif ts[k]["k"] == ")":
                depth -= 1
                nxt = ts[k + 1]["k"] if k + 1 <= u[1] else ""
                nxt2 = ts[k + 2]["k"] if k + 2 <= u[1] else ""
                if nxt == "(" or (nxt == "B" and nxt2 == "("):
                    f.add("sibling_branches_in_mult_branch")
        if mx >= 3:
            f.add("depth3_in_mult_branch")
    return f


@scope("graph.double_close_before_mult")
def _dcbm(record):
    return "double_close_before_mult" in mult_features(_toks(record))


@scope("graph.nested_branch_on_first_of_mult_branch")
def _nbfm(record):
    return "nested_branch_on_first_of_mult_branch" in mult_features(_toks(record))


@scope("graph.mult_branch_in_mult_branch")
def _mbmb(record):
    return "mult_branch_in_mult_branch" in mult_features(_toks(record))


@scope("graph.sibling_branches_in_mult_branch")
def _sbmb(record):
    return "sibling_branches_in_mult_branch" in mult_features(_toks(record))


@scope("graph.depth3_in_mult_branch")
def _d3mb(record):
    return "depth3_in_mult_branch" in mult_features(_toks(record))


@witness_runner("graph.mult")
def _run_graph_mult(kf):
    """True while shorthand and longhand still read to different graphs (or the shorthand raises)."""
    from . import project
    from .props.graph import iso_witness
    bad = False
    for w in kf["witness"]:
        a, _ = project.run_read(w["text"])
        b, _ = project.run_read(w["longhand"])
        if a["outcome"] != "ok" or b["outcome"] != "ok" or not iso_witness(a, b):
            bad = True
    return bad


@scope("annot.coarse_fragment_dialect")
def _coarse_dialect(record):
    """annotation on a node of a COARSE fragment using a positional entry, 'q' or 'x' (where the
    coarse dialect of the documentation and the atomistic dialect the code applies differ)"""
    return record.get("site") == "coarse" and any(e["k"] in ("", "q", "x") for e in record.get("entries", []))


@witness_runner("annot.coarse")
def _run_annot_coarse(kf):
    from . import project
    bad = False
    for w in kf["witness"]:
        o = project.run_resolve(w["text"], last_all_atom=False)
        if o["outcome"] != "ok":
            return True
        n = [x for x in o["steps"][0]["fine"]["nodes"] if x["map"] == [["X", 0]]][0]
        if n["raw_charge"] != w["expected_charge"]:
            bad = True
    return bad


@witness_runner("annot.coarse_fault")
def _run_annot_coarse_fault(kf):
    from . import project
    return any(project.run_resolve(w["text"], last_all_atom=False)["outcome"] != w["expected"] for w in kf["witness"])


def _frag_tokens(record):
    rf = record.get("record_fields") or record
    return [t for _, toks in (rf.get("frags") or []) for t in [toks]]


@scope("squash.shared_aromatic_atom")
def _shared_aromatic(record):
    """a '!' descriptor written on (or right behind) an aromatic atom of some fragment"""
    for toks in _frag_tokens(record):
        last_atom = None
        pending_lead = []
        for t in toks:
            if t["k"] == "A":
                last_atom = t
                if pending_lead and t["ar"]:
                    return True
                pending_lead = []
            elif t["k"] == "D" and t["v"] == "!":
                if last_atom is None:
                    pending_lead.append(t)
                elif last_atom["ar"]:
                    return True
            elif t["k"] == ")":
                # a descriptor behind a branch belongs to the anchor; be conservative: look at any aromatic atom
                if any(x["k"] == "A" and x["ar"] for x in toks):
                    last_atom = next(x for x in toks if x["k"] == "A" and x["ar"])
    return False


@scope("resolve.shared_atoms_present")
def _shared_present(record):
    rf = record.get("record_fields") or record
    return any(t["k"] == "D" and t["v"] == "!" for _, toks in (rf.get("frags") or []) for t in toks)


@witness_runner("resolve.outcome")
def _run_resolve_outcome(kf):
    from . import project
    return any(project.run_resolve(w["text"])["outcome"] != w["expected_outcome"] for w in kf["witness"])


@witness_runner("resolve.atomnames")
def _run_resolve_atomnames(kf):
    from . import project
    for w in kf["witness"]:
        o = project.run_resolve(w["text"])
        if o["outcome"] != "ok":
            return True
        nodes = o["steps"][0]["fine"]["nodes"]
        for k in {x for n in nodes for x in n["fragid"]}:
            names = [n["name"] for n in nodes if k in n["fragid"]]
            if len(names) != len(set(names)):
                return True
    return False


def _frag_lists(record):
    rf = record.get("record_fields") or record
    return [toks for _, toks in (rf.get("frags") or [])]


@scope("stereo.cut_through_marked_bond")
def _cut_marked(record):
    """a slash mark written next to a bonding descriptor (the marked bond itself is cut)"""
    for toks in _frag_lists(record):
        for i, t in enumerate(toks):
            if t["k"] != "Z":
                continue
            if i + 1 < len(toks) and toks[i + 1]["k"] == "D":
                return True
            j = i - 1
            if j >= 0 and toks[j]["k"] == "B":
                j -= 1
            if j >= 0 and toks[j]["k"] == "D" and not any(x["k"] == "A" for x in toks[:j]):
                return True
    return False


@scope("stereo.cut_at_double_bond")
def _cut_double(record):
    """slash marks are present and some descriptor carries a double-bond order (a stereo double bond may be cut)"""
    lists = _frag_lists(record)
    if not any(t["k"] == "Z" for toks in lists for t in toks):
        return False
    for toks in lists:
        for i, t in enumerate(toks):
            if t["k"] == "D":
                if i > 0 and toks[i - 1]["k"] == "B" and toks[i - 1]["v"] == "=":
                    return True
                if i + 1 < len(toks) and toks[i + 1]["k"] == "B" and toks[i + 1]["v"] == "=" and \
                        not any(x["k"] == "A" for x in toks[:i]):
                    return True
    return False


@witness_runner("stereo.relation")
def _run_stereo_relation(kf):
    from . import project
    bad = False
    for w in kf["witness"]:
        o = project.run_resolve(w["text"])
        if o["outcome"] != "ok":
            bad = True
            continue
        rels = {t[4] for n in o["steps"][0]["fine"]["nodes"] for t in n["ez"]}
        if rels != {w["expected_relation"]}:
            bad = True
    return bad
