"""
Molecules, partitions and renderings for the cut-and-resolve checks (C01, C10, C09, C15).

A molecule is a networkx graph built by pysmiles from a catalogue SMILES or by the random grower
below (pysmiles is a dependency outside the system under test; its aromaticity perception of the
UNCUT molecule defines the reference orders, see DESIGN section 5 C01).
Everything random is drawn from a seeded random.Random.
"""
import itertools

import networkx as nx

from . import render
from .common import ord2

CATALOGUE = [
    "CC", "CCO", "CC(C)C", "C=C", "C#C", "CC#N", "C=CC=C", "CC(=O)O", "CC(=O)[O-]", "CC[NH3+]", "C[N+](C)(C)C",
    "C1CC1", "C1CCCCC1", "C1CCC1C", "C1=CCCCC1", "c1ccccc1", "Cc1ccccc1", "c1ccncc1", "c1ccc(cc1)c1ccccc1",
    "c1ccc2ccccc2c1", "Clc1ccccc1Br", "CS(=O)(=O)C", "CP(=O)(O)O", "FC(F)(F)C", "OCC(O)CO", "CC(C)(C)CO",
    "C1CC2CCC1C2", "O=C1CCCC1", "CSc1ccccc1", "NC(=O)c1ccccc1", "C1COCCN1", "CC=CC", "N#CC#N", "ClCCBr",
    "OC(=O)CC(=O)O", "COP(=O)OC", "CS(O)C", "CP(C)(C)C", "CSc1ccccc1C", "c1ccccc1Sc1ccccc1", "c1ccccc1SC", "Cc1ccc(SC)cc1", "ClCSc1ccncc1", "c1cc(C)cc(C)c1", "C1CCC2(CC1)CCCC2", "CCS", "CSSC", "[O-]C(=O)CC[NH3+]",
]

ORGANIC = {"B", "C", "N", "O", "P", "S", "F", "Cl", "Br", "I"}


def read_reference(smiles):
    import pysmiles
    import logging
    logging.getLogger("pysmiles").setLevel(logging.CRITICAL)
    g = pysmiles.read_smiles(smiles, explicit_hydrogen=False, reinterpret_aromatic=True)
    for n in g.nodes:
        g.nodes[n].setdefault("charge", 0)
    return g


def random_molecule(rng, nheavy):
    """Random tree + ring closures over C N O S F Cl with valence bookkeeping, returned as SMILES-independent graph
    via pysmiles writing/reading is avoided: we build the graph and let pysmiles perceive aromaticity."""
    import pysmiles
    cap = {"C": 4, "N": 3, "O": 2, "S": 2, "F": 1, "Cl": 1, "Br": 1, "P": 3}
    els = ["C"] * 6 + ["N", "O", "O", "S", "F", "Cl", "Br", "P"]
    g = nx.Graph()
    g.add_node(0, element="C", charge=0, aromatic=False)
    free = {0: 4}
    for i in range(1, nheavy):
        cands = [n for n, f in free.items() if f > 0]
        if not cands:
            break
        p = rng.choice(cands)
        el = rng.choice(els)
        order = 1
        if cap[el] >= 2 and free[p] >= 2 and rng.random() < 0.2:
            order = 2
        if cap[el] >= 3 and free[p] >= 3 and rng.random() < 0.05:
            order = 3
        g.add_node(i, element=el, charge=0, aromatic=False)
        g.add_edge(p, i, order=order)
        free[p] -= order
        free[i] = cap[el] - order
    # ring closures
    for _ in range(rng.choice([0, 0, 1, 1, 2])):
        cands = [n for n, f in free.items() if f > 0]
        if len(cands) < 2:
            break
        a, b = rng.sample(cands, 2)
        if g.has_edge(a, b) or nx.shortest_path_length(g, a, b) < 2:
            continue
        g.add_edge(a, b, order=1)
        free[a] -= 1
        free[b] -= 1
    for n in g.nodes:
        g.nodes[n]["hcount"] = max(0, free[n])
    try:
        pysmiles.smiles_helper.mark_aromatic_atoms(g)
        pysmiles.smiles_helper.mark_aromatic_edges(g)
    except Exception:
        pass
    return g


def reference_record(g, member=None):
    """ref for the trace: atoms <<el, chg, nH, blocks>> (1-based positions by sorted node), bonds <<a, b, o2>>"""
    order = sorted(g.nodes)
    pos = {n: i + 1 for i, n in enumerate(order)}
    atoms = [[str(g.nodes[n]["element"]), int(g.nodes[n].get("charge", 0)), int(g.nodes[n].get("hcount", 0)),
              sorted(member[n]) if member else []] for n in order]
    bonds = []
    for a, b, d in g.edges(data=True):
        lo, hi = sorted((pos[a], pos[b]))
        bonds.append([lo, hi, ord2(d.get("order", 1))])
    bonds.sort()
    return {"atoms": atoms, "bonds": bonds}, pos


# ----------------------------------------------------------------------------------------------
# partitions
# ----------------------------------------------------------------------------------------------
# molecules with a fixed partition that cuts 2, 3 and 4 bonds between the same two fragments (base-graph orders '=', '#', '$')
MULTICUT = [
    ("C1CCC1", [0, 0, 1, 1]),
    ("C1C2CCC2C1", [0, 0, 0, 1, 1, 1]),
    ("C1C2C3CCC3C2C1", [0, 0, 0, 0, 1, 1, 1, 1]),
    ("N1C2C3COC3C2C1", [0, 0, 0, 0, 1, 1, 1, 1]),
    ("C1C2C3CCC3C2C1CO", [0, 0, 0, 0, 1, 1, 1, 1, 1, 2]),
]


# a hub fragment with fourteen cut bonds, cuts labelled 1..14 (labels of two characters, labels that end in a digit
# and differ only by it: 1 / 11, 2 / 12 ...)
HUB = ("FC(Cl)(Br)C(F)(Cl)C(Br)(F)C(Cl)(Br)C(F)(Cl)C(Br)(F)Cl", {1, 4, 7, 10, 13, 16})


def hub_blocks():
    backbone = HUB[1]
    blocks, nxt = {}, 1
    for n in range(20):
        if n in backbone:
            blocks[n] = 0
        else:
            blocks[n] = nxt
            nxt += 1
    return blocks


def random_partition(g, rng, nblocks):
    """Partition the atoms into connected blocks (all bonds between different blocks are cut)."""
    nodes = list(g.nodes)
    nblocks = max(1, min(nblocks, len(nodes)))
    seeds = rng.sample(nodes, nblocks)
    block = {s: i for i, s in enumerate(seeds)}
    frontier = list(seeds)
    while len(block) < len(nodes):
        rng.shuffle(frontier)
        grown = False
        for n in list(frontier):
            nb = [m for m in g.neighbors(n) if m not in block]
            if nb:
                m = rng.choice(nb)
                block[m] = block[n]
                frontier.append(m)
                grown = True
                break
            frontier.remove(n)
        if not grown and not frontier:
            break
    return block


def all_partitions(g, max_blocks=4):
    """Every partition of a small molecule into connected blocks."""
    nodes = sorted(g.nodes)
    n = len(nodes)

    def rec(i, assign, k):
        if i == n:
            blocks = {}
            for node, b in zip(nodes, assign):
                blocks.setdefault(b, []).append(node)
            if all(nx.is_connected(g.subgraph(v)) for v in blocks.values()):
                yield dict(zip(nodes, assign))
            return
        for b in range(min(k + 1, max_blocks)):
            yield from rec(i + 1, assign + [b], max(k, b + 1))
    yield from rec(0, [], 0)


# ----------------------------------------------------------------------------------------------
# rendering a fragment (subgraph + descriptors) to tokens
# ----------------------------------------------------------------------------------------------
_SYM = {0: ".", 2: "-", 4: "=", 6: "#", 8: "$"}


def atom_token(attrs):
    if attrs.get("cgname"):
        return render.ftok("A", "[#" + attrs["cgname"] + "]", el=attrs["cgname"])
    el = attrs["element"]
    ar = bool(attrs.get("aromatic", False))
    ch = int(attrs.get("charge", 0))
    hc = int(attrs.get("hcount", 0))
    if attrs.get("chiral"):
        t = render.ftok("A", "[" + (el.lower() if ar else el) + "]", el=el, ar=ar, ch=0, hc=0,
                        a=[{"k": "x", "v": attrs["chiral"], "eq": 1}])
        return t
    if ch == 0 and el in ORGANIC and not attrs.get("force_bracket"):
        return render.ftok("A", el.lower() if ar else el, el=el, ar=ar, hc=-2)
    body = (el.lower() if ar else el)
    if hc:
        body += "H" + (str(hc) if hc > 1 else "")
    if ch:
        body += ("+" if ch > 0 else "-") + (str(abs(ch)) if abs(ch) > 1 else "")
    return render.ftok("A", "[" + body + "]", el=el, ar=ar, ch=ch, hc=hc)


class Unrenderable(Exception):
    pass


def render_fragment(frag, descs, rng, style=None, marks=None):
    """
    frag: nx.Graph (nodes with element/charge/aromatic/hcount, edges with order)
    descs: {node: [(kind, label, order_int, slashmark or None), ...]}
    Returns (tokens, position: node -> atom index in the text).
    """
    style = style or {}
    nodes = list(frag.nodes)
    start = style.get("start") if style.get("start") in frag else rng.choice(nodes)
    toks = []
    pos = {}
    visited = set()
    ring_of_edge = {}
    free_markers = list(range(1, 60))
    # find ring-closing edges by DFS order
    order_nb = {n: rng.sample(list(frag.neighbors(n)), frag.degree(n)) for n in nodes}
    parent = {start: None}
    dfs_order = []
    closing = set()
    stack = [start]
    seen = {start}
    tree_children = {n: [] for n in nodes}

    def dfs(u):
        dfs_order.append(u)
        for v in order_nb[u]:
            if v == parent[u]:
                continue
            if v in seen:
                closing.add(frozenset((u, v)))
            else:
                seen.add(v)
                parent[v] = u
                tree_children[u].append(v)
                dfs(v)
    import sys
    sys.setrecursionlimit(10000)
    dfs(start)
    open_marker = {}

    def bond_symbol(u, v):
        o2 = ord2(frag.edges[u, v].get("order", 1))
        au, av = frag.nodes[u].get("aromatic", False), frag.nodes[v].get("aromatic", False)
        if o2 == 3:
            return None if (au and av) else ":"
        if o2 == 2:
            return "-" if (au and av) else (None if rng.random() < 0.9 else "-")
        return _SYM[o2]

    marks = marks or {}

    def mark_sign(u, v):
        """sign of the mark on bond u-v read 'u before v' (0 = unmarked)"""
        if (u, v) in marks:
            return marks[(u, v)]
        if (v, u) in marks:
            return -marks[(v, u)]
        return 0

    def emit_descs(u, leading):
        ds = list(descs.get(u, []))
        # a descriptor that carries a slash mark is written next to the atom (last of the leading ones / first of the trailing)
        if leading:
            ds.sort(key=lambda d: d[3] is not None)
        else:
            ds.sort(key=lambda d: d[3] is None)
        for kind, label, order, mk in ds:
            sym = {1: None, 2: "=", 3: "#", 0: ".", 4: "$"}[order]
            if leading:
                toks.append(render.ftok("D", kind, el=label))
                if sym:
                    toks.append(render.ftok("B", sym))
                if mk:
                    # (partner) mark u : read 'partner before u'
                    toks.append(render.ftok("Z", "/" if mk["sign_partner_first"] > 0 else "\\"))
            else:
                if mk:
                    # u mark (partner): read 'u before partner'
                    toks.append(render.ftok("Z", "/" if -mk["sign_partner_first"] > 0 else "\\"))
                elif sym:
                    toks.append(render.ftok("B", sym))
                elif order == 1 and rng.random() < 0.1:
                    toks.append(render.ftok("B", "-"))
                toks.append(render.ftok("D", kind, el=label))

    for e in closing:
        a_, b_ = tuple(e)
        if mark_sign(a_, b_) != 0:
            raise Unrenderable("marked bond closes a ring in this traversal")

    def write(u, first):
        has_marked = any(d[3] is not None for d in descs.get(u, []))
        want_lead = style.get("lead_marked") if has_marked else None
        if has_marked:
            if want_lead and not first:
                raise Unrenderable("a leading marked descriptor needs its atom to be written first")
            if not want_lead and (tree_children[u] or any(u in e for e in closing)):
                raise Unrenderable("a trailing marked descriptor needs a leaf atom")
        lead = first and bool(descs.get(u)) and (rng.random() < 0.5 if want_lead is None else want_lead)
        if lead:
            emit_descs(u, True)
        pos[u] = len(pos)
        toks.append(atom_token(frag.nodes[u]))
        rings = [e for e in closing if u in e]
        rng.shuffle(rings)
        before = (not lead) and (rng.random() < 0.5 or has_marked)
        # third placement: behind the branches ("C(C)(CO)[$a]" - the descriptor belongs to the branching atom);
        # then every child is written as a branch
        after_branches = (not lead) and (not has_marked) and bool(descs.get(u)) and bool(tree_children[u]) \
            and not frag.nodes[u].get("cgname") and rng.random() < 0.25
        if after_branches:
            before = True
        if not lead and before and not after_branches:
            emit_descs(u, False)
        for e in rings:
            (v,) = [x for x in e if x != u]
            if e in open_marker:
                m, form = open_marker.pop(e)
                if toks and toks[-1]["k"] == "R" and toks[-1]["v"] == "%":
                    form = "%"
                toks.append(render.ftok("R", form, m))
                free_markers.append(m)
                free_markers.sort()
            else:
                m = free_markers.pop(0) if rng.random() < 0.8 else free_markers.pop(rng.randrange(min(12, len(free_markers))))
                form = "d" if (m < 10 and rng.random() < 0.8) else "%"
                sym = bond_symbol(u, v)
                if sym:
                    toks.append(render.ftok("B", sym))
                elif toks and toks[-1]["k"] == "R" and toks[-1]["v"] == "%":
                    form = "%"          # a digit directly behind %nn would be read as part of it
                toks.append(render.ftok("R", form, m))
                open_marker[e] = (m, form)
        if not lead and not before:
            emit_descs(u, False)
        kids = tree_children[u]
        if after_branches:
            for v in kids:
                sym = bond_symbol(u, v)
                ms = mark_sign(u, v)
                toks.append(render.ftok("("))
                if ms != 0:
                    toks.append(render.ftok("Z", "/" if ms > 0 else "\\"))
                elif sym:
                    toks.append(render.ftok("B", sym))
                write(v, False)
                toks.append(render.ftok(")"))
            emit_descs(u, False)
            return
        coarse = bool(frag.nodes[u].get("cgname"))
        for i, v in enumerate(kids):
            last = i == len(kids) - 1
            sym = bond_symbol(u, v)
            ms = mark_sign(u, v)
            if ms != 0:
                sym = None
            # CGsmiles writes the bond symbol in front of the branch, SMILES inside it
            if sym and coarse:
                toks.append(render.ftok("B", sym))
            if not last:
                toks.append(render.ftok("("))
            if sym and not coarse:
                toks.append(render.ftok("B", sym))
            if ms != 0:
                toks.append(render.ftok("Z", "/" if ms > 0 else "\\"))
            write(v, False)
            if not last:
                toks.append(render.ftok(")"))
    write(start, True)
    return toks, pos


# ----------------------------------------------------------------------------------------------
# rendering a base graph to tokens with a chosen numbering
# ----------------------------------------------------------------------------------------------
def render_base(bg, rng, names):
    """
    bg: nx.Graph over block ids with edge attr order (int).  Returns (tokens, numbering: block -> node id).
    The numbering is the order of appearance, chosen by a random DFS.
    """
    nodes = list(bg.nodes)
    start = rng.choice(nodes)
    order_nb = {n: rng.sample(list(bg.neighbors(n)), bg.degree(n)) for n in nodes}
    parent = {start: None}
    seen = {start}
    kids = {n: [] for n in nodes}
    closing = set()

    def dfs(u):
        for v in order_nb[u]:
            if v == parent[u]:
                continue
            if v in seen:
                closing.add(frozenset((u, v)))
            else:
                seen.add(v)
                parent[v] = u
                kids[u].append(v)
                dfs(v)
    dfs(start)
    # disconnected parts (none expected) are not supported
    toks, numbering = [], {}
    free = list(range(1, 60))
    open_marker = {}
    sym = {0: ".", 1: None, 2: "=", 3: "#", 4: "$"}

    def write(u):
        numbering[u] = len(numbering)
        toks.append(render.tok("N", names[u]))
        rings = [e for e in closing if u in e]
        rng.shuffle(rings)
        for e in rings:
            if e in open_marker:
                m, form = open_marker.pop(e)
                if toks and toks[-1]["k"] == "R" and toks[-1]["v"] == "%":
                    form = "%"
                toks.append(render.tok("R", form, m))
                free.append(m)
                free.sort()
            else:
                (v,) = [x for x in e if x != u]
                m = free.pop(0)
                form = "d" if (m < 10 and rng.random() < 0.8) else "%"
                s = sym[bg.edges[u, v]["order"]]
                if s:
                    toks.append(render.tok("B", s))
                elif rng.random() < 0.1:
                    toks.append(render.tok("B", "-"))
                elif toks and toks[-1]["k"] == "R" and toks[-1]["v"] == "%":
                    form = "%"
                toks.append(render.tok("R", form, m))
                open_marker[e] = (m, form)
        ks = kids[u]
        for i, v in enumerate(ks):
            last = i == len(ks) - 1
            s = sym[bg.edges[u, v]["order"]]
            if s:
                toks.append(render.tok("B", s))
            if not last:
                toks.append(render.tok("("))
            write(v)
            if not last:
                toks.append(render.tok(")"))
    write(start)
    return toks, numbering


# ----------------------------------------------------------------------------------------------
# cut configurations
# ----------------------------------------------------------------------------------------------
def label_for(i):
    letters = "abcdefghijklmnopqrstuvwxyz"
    return letters[i % 26] + (str(i // 26) if i >= 26 else "")


def make_cut_config(g, block, rng, kinds=("$", "<>"), share=0.0, style=None, prefix="F", label_offset=0,
                    marks=None, cutmark="both", share_hub=False, numeric=False):
    """
    Build the CGsmiles configuration of molecule g cut along partition `block` (node -> block id).
    Returns dict(base tokens, frags [[name, tokens]], member: atom -> set(blocks in base numbering),
                 posmap: (fragment name, atom index) -> atom, ...), or None if outside the domain.
    """
    blocks = sorted(set(block.values()))
    cuts = [(a, b) for a, b in g.edges if block[a] != block[b]]
    # base graph
    bg = nx.Graph()
    bg.add_nodes_from(blocks)
    for a, b in cuts:
        pa, pb = block[a], block[b]
        if bg.has_edge(pa, pb):
            bg.edges[pa, pb]["order"] += 1
        else:
            bg.add_edge(pa, pb, order=1)
    if any(d["order"] > 4 for _, _, d in bg.edges(data=True)):
        return None
    if not nx.is_connected(bg):
        return None
    names = {b: "%s%d" % (prefix, b) for b in blocks}
    frag_nodes = {b: [n for n in g.nodes if block[n] == b] for b in blocks}
    frag_graph = {b: nx.Graph(g.subgraph(frag_nodes[b])) for b in blocks}
    descs = {b: {} for b in blocks}
    extra_member = {n: {block[n]} for n in g.nodes}
    marked_cuts = []
    copies = {}         # (block, copy node key) -> original atom
    shared_ends = set()
    for i, (a, b) in enumerate(cuts):
        lab = str(i + 1 + label_offset) if numeric else label_for(i + label_offset)
        o2 = ord2(g.edges[a, b].get("order", 1))
        order = 1 if o2 == 3 else o2 // 2
        if o2 == 3 and not (g.nodes[a].get("aromatic") and g.nodes[b].get("aromatic")):
            return None
        if share and rng.random() < share:
            # share atom b with block of a: a's fragment gets a copy of b
            if rng.random() < 0.5:
                a, b = b, a
            if share_hub and g.degree(a) > g.degree(b):
                a, b = b, a         # share the atom with more neighbours (atoms shared by many fragments)
        # an atom is shared into a given block at most once (two copies of one atom inside one
        # fragment would merge two atoms of the same fragment: degenerate, out of domain), and the
        # two ends of a bond are never both shared across it
        if share and rng.random() < share and (block[a], b) not in shared_ends and (block[b], a) not in shared_ends \
                and not any(k[0] == block[a] and bb == b for k, bb in copies.items()):
            pa, pb = block[a], block[b]
            key = ("copy", i)
            attrs = dict(g.nodes[b])
            frag_graph[pa].add_node(key, **attrs)
            frag_graph[pa].add_edge(a, key, order=g.edges[a, b].get("order", 1))
            copies[(pa, key)] = b
            descs[pa].setdefault(key, []).append(("!", lab, 1, None))
            descs[pb].setdefault(b, []).append(("!", lab, 1, None))
            extra_member[b].add(pa)
            shared_ends.add((pa, b))
            continue
        kind = rng.choice(kinds)
        if kind == "$":
            ka, kb = "$", "$"
        else:
            ka, kb = (">", "<") if rng.random() < 0.5 else ("<", ">")
        mka = mkb = None
        if marks and ((a, b) in marks or (b, a) in marks):
            # the cut bond carries a slash mark: it is written next to the descriptor(s)
            sab = marks[(a, b)] if (a, b) in marks else -marks[(b, a)]       # read 'a before b'
            if cutmark in ("both", "a"):
                mka = {"sign_partner_first": -sab}      # partner b first = read 'b before a'
            if cutmark in ("both", "b"):
                mkb = {"sign_partner_first": sab}       # partner a first
            marked_cuts.append((a, b))
        descs[block[a]].setdefault(a, []).append((ka, lab, order, mka))
        descs[block[b]].setdefault(b, []).append((kb, lab, order, mkb))
    for b in blocks:
        for n in descs[b]:
            rng.shuffle(descs[b][n])
    base_toks, numbering = render_base(bg, rng, names)
    frags, posmap = [], {}
    for b in rng.sample(blocks, len(blocks)):
        fmarks = {k: v for k, v in (marks or {}).items() if k[0] in frag_graph[b] and k[1] in frag_graph[b]}
        st = dict(style or {})
        marked_here = [n for n in descs[b] if any(d[3] is not None for d in descs[b][n])]
        if marked_here:
            # ligand side: trailing on a leaf; anchor side: leading on the start atom - decide by degree
            n0 = marked_here[0]
            if frag_graph[b].degree(n0) == 0 or (frag_graph[b].degree(n0) == 1 and rng.random() < 0.5):
                st["lead_marked"] = frag_graph[b].degree(n0) == 0 and rng.random() < 0.5
                if not st["lead_marked"]:
                    others = [x for x in frag_graph[b].nodes if x != n0]
                    if others:
                        st["start"] = rng.choice(others)
            else:
                st["lead_marked"] = True
                st["start"] = n0
        toks = None
        for _ in range(12):
            try:
                toks, pos = render_fragment(frag_graph[b], descs[b], rng, st, marks=fmarks)
                break
            except Unrenderable:
                continue
        if toks is None:
            return None
        frags.append([names[b], toks])
        for n, p in pos.items():
            posmap[(names[b], p)] = copies.get((b, n), n)
    member = {n: sorted(numbering[b] for b in bs) for n, bs in extra_member.items()}
    return {"base": base_toks, "frags": frags, "member": member, "posmap": posmap, "bg": bg, "names": names,
            "marked_cuts": len(marked_cuts),
            "nshared": len(copies), "ncuts": len(cuts), "nblocks": len(blocks)}


def layered_config(g, rng, nlevels, share_top=0.0, share_atom=0.0):
    """
    A multi-level description of molecule g: the atoms are cut into blocks (last, atomistic level), the
    blocks are grouped into super-blocks (coarse level), and so on `nlevels` times.  Returns
    (top base tokens, [coarse fragment levels...], atomistic config) or None.
    """
    n = g.number_of_nodes()
    block = random_partition(g, rng, rng.randint(2, max(2, min(7, n))))
    cfg1 = make_cut_config(g, block, rng, share=share_atom, prefix="F")
    if cfg1 is None:
        return None
    levels = []
    cur = cfg1
    prefixes = ["G", "H", "K"]
    for lv in range(nlevels):
        bg = cur["bg"]
        if bg.number_of_nodes() < 2:
            break
        cg = nx.Graph()
        for b in bg.nodes:
            cg.add_node(b, cgname=cur["names"][b], element="X", charge=0, aromatic=False, hcount=0)
        for a, b, d in bg.edges(data=True):
            cg.add_edge(a, b, order=d["order"])
        blk = random_partition(cg, rng, rng.randint(1, max(1, min(4, cg.number_of_nodes() - 1))))
        nxt = make_cut_config(cg, blk, rng, share=share_top, prefix=prefixes[lv], label_offset=100 * (lv + 1))
        if nxt is None:
            return None
        levels.append(nxt)
        cur = nxt
    return {"top": cur["base"], "coarse_levels": [lv["frags"] for lv in reversed(levels)], "atomistic": cfg1,
            "nlevels": len(levels)}


# ----------------------------------------------------------------------------------------------
# stereo molecules (C15)
# ----------------------------------------------------------------------------------------------
STEREO = [
    "F/C=C/Cl", "F/C=C\\Cl", "C/C=C/C", "C/C=C\\C", "CC/C=C/CO", "CC/C=C\\CO", "F/C=C/C=C/F", "F/C=C\\C=C/Cl",
    "C/C(F)=C/Cl", "OC/C=C/c1ccccc1", "N/C=C/CO", "ClC/C=C\\CBr", "C[C;x=R](F)/C=C/Cl", "C[C;x=S](O)CC",
    "N[C;x=R](C)C(=O)O", "C[C;x=R](F)C[C;x=S](Cl)O", "F/C=C/CC[C;x=S](C)O",
    "CSc1ccc(cc1)/C=C/F", "CSc1ccc(cc1)[C;x=S](O)C(F)(F)F", "F/C=C/[C;x=S](Cl)O", "C/C=C\\[C;x=R](F)CC", "[O-]/C=C/C", "C/C=C/[NH3+]",
]


# stereo double bonds whose marked substituent is an explicitly written hydrogen (imines, oximes, toolkit output)
STEREO_H = ["[H]/N=C(/C)CC", "[H]/C(C)=C/F", "[H]/N=C(\\C)CC", "C(/[H])(F)=C(/[H])Cl", "CC/C([H])=N/O", "[H]/C(CC)=C(/[H])CO"]


def explicit_h_configs(smiles):
    """The uncut molecule as one fragment, and every cut at an unmarked single chain bond at depth 0 between two atoms
    (A = prefix + [$], B = [$] + suffix) in both base-graph orders.  -> (reftoks, [(base tokens, frags, posmap)])"""
    s = smiles.replace("\\\\", "\\")
    toks = render.tokenize_fragment(s, False)
    assert render.render_fragment_tokens(toks) == s, smiles
    out = [([render.tok("N", "A")], [("A", toks)], {("A", k): k + 1 for k in range(sum(1 for t in toks if t["k"] == "A"))})]
    depth, natoms, open_rings = 0, 0, set()
    for i, t in enumerate(toks):
        if t["k"] == "(":
            depth += 1
        elif t["k"] == ")":
            depth -= 1
        elif t["k"] == "R":
            open_rings ^= {t["n"]}
        elif t["k"] == "A":
            natoms += 1
            if depth == 0 and not open_rings and i + 1 < len(toks) and toks[i + 1]["k"] == "A" and not toks[i]["ar"]:
                # a marked bond has a Z token in between, a double bond a B token: neither is cut here
                total = sum(1 for x in toks if x["k"] == "A")
                if any(x["k"] == ")" for x in toks[i + 1:]) and depth != 0:
                    continue
                fa = toks[:i + 1] + [render.ftok("D", "$", el="")]
                fb = [render.ftok("D", "$", el="")] + toks[i + 1:]
                # the suffix must be a complete text on its own (no branch closed that was opened in the prefix)
                if sum(1 for x in fb if x["k"] == "(") != sum(1 for x in fb if x["k"] == ")"):
                    continue
                pm = {("A", k): k + 1 for k in range(natoms)}
                pm.update({("B", k): natoms + k + 1 for k in range(total - natoms)})
                for order in (("A", "B"), ("B", "A")):
                    out.append(([render.tok("N", order[0]), render.tok("N", order[1])], [("A", fa), ("B", fb)], pm))
    return toks, out


def read_stereo(smiles):
    """-> (reference graph with chirality labels, marks {(x, y): sign read 'x before y'}, uncut tokens)"""
    s = smiles.replace("\\\\", "\\")
    toks = render.tokenize_fragment(s, False)
    if render.render_fragment_tokens(toks) != s:
        raise ValueError(smiles)
    def atext(t):
        if t["a"] and t["v"] == "[" + t["el"] + "]":
            return t["el"]          # '[C;x=R]' is the plain atom for the reference molecule
        return t["v"]
    clean = "".join(atext(t) if t["k"] == "A" else (t["v"] if t["k"] == "B" else (str(t["n"]) if t["k"] == "R" else t["k"]))
                    for t in toks if t["k"] not in ("Z", "D"))
    g = read_reference(clean)
    marks, chiral = {}, {}
    prev, natoms, stack = None, 0, []
    pending = None
    for t in toks:
        if t["k"] == "A":
            if pending is not None:
                marks[(pending[0], natoms)] = pending[1]
                pending = None
            for e in t["a"]:
                if e["k"] == "x":
                    chiral[natoms] = e["v"]
            prev = natoms
            natoms += 1
        elif t["k"] == "(":
            stack.append(prev)
        elif t["k"] == ")":
            prev = stack.pop()
        elif t["k"] == "Z":
            pending = (prev, 1 if t["v"] == "/" else -1)
    for n, lab in chiral.items():
        g.nodes[n]["chiral"] = lab
    return g, marks, toks
