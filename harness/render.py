"""
Rendering of abstract token strings (as emitted by the TLA+ generators) to concrete CGsmiles text,
and the inverse tokenizer for text that comes from elsewhere (documentation, the repository's
tests, the writer's output).  The tokenizer is deliberately strict: anything it does not
understand raises Untokenizable and the caller decides (SKIP for harness inputs, a failed
`Accepted` clause for text produced by the implementation).
"""
import re


class Untokenizable(Exception):
    pass


# ----------------------------------------------------------------------------------------------
# annotations
# ----------------------------------------------------------------------------------------------
def render_entry(e):
    if e["k"] == "":
        return e["v"]
    return e["k"] + "=" + e["v"]


def parse_entries(text):
    """'q=1;0.5;foo=bar' -> entries.  text is what follows the first ';' (may be '')."""
    if text == "":
        return []
    out = []
    for part in text.split(";"):
        eq = part.count("=")
        if eq == 0:
            out.append({"k": "", "v": part, "eq": 0})
        else:
            k, v = part.split("=", 1)
            out.append({"k": k, "v": v, "eq": eq})
    return out


# ----------------------------------------------------------------------------------------------
# graph notation
# ----------------------------------------------------------------------------------------------
def tok(k, v="", n=0, a=None):
    return {"k": k, "v": v, "n": n, "a": list(a or [])}


def render_graph_tokens(tokens, braces=True):
    out = []
    for t in tokens:
        k = t["k"]
        if k == "N":
            out.append("[#" + t["v"] + "".join(";" + render_entry(e) for e in t["a"]) + "]")
        elif k == "B":
            out.append(t["v"])
        elif k == "R":
            out.append(str(t["n"]) if t["v"] == "d" else "%%%02d" % t["n"])
        elif k in "()":
            out.append(k)
        elif k == "M":
            out.append("|%d" % t["n"])
        else:
            raise ValueError(k)
    s = "".join(out)
    return "{" + s + "}" if braces else s


_SYMS = ".-=#$"


def tokenize_graph(text):
    """Tokenize a CGsmiles graph string ('{...}' or bare)."""
    s = text.strip()
    if s.startswith("{") and s.endswith("}"):
        s = s[1:-1]
    toks = []
    i = 0
    n = len(s)
    while i < n:
        c = s[i]
        if c == "[":
            j = s.find("]", i)
            if j < 0 or s[i + 1:i + 2] != "#":
                raise Untokenizable(text)
            body = s[i + 2:j]
            name, _, ann = body.partition(";")
            if not re.fullmatch(r"\w+", name):
                raise Untokenizable(text)
            toks.append(tok("N", name, 0, parse_entries(ann) if ";" in body else []))
            i = j + 1
        elif c in _SYMS:
            toks.append(tok("B", c))
            i += 1
        elif c == "%":
            m = re.match(r"%(\d\d)", s[i:])
            if not m:
                raise Untokenizable(text)
            # the reader swallows all following digits into a % marker
            m2 = re.match(r"%(\d+)", s[i:])
            if len(m2.group(1)) != 2:
                raise Untokenizable(text)
            toks.append(tok("R", "%", int(m.group(1))))
            i += 3
        elif c.isdigit():
            toks.append(tok("R", "d", int(c)))
            i += 1
        elif c in "()":
            toks.append(tok(c))
            i += 1
        elif c == "|":
            m = re.match(r"\|(\d+)", s[i:])
            if not m:
                raise Untokenizable(text)
            toks.append(tok("M", "", int(m.group(1))))
            i += len(m.group(0))
        else:
            raise Untokenizable(text)
    return toks
