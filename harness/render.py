"""
Rendering of abstract token strings (as emitted by the TLA+ generators) to concrete CGsmiles text,
and the inverse tokenizer for text that comes from elsewhere (documentation, the repository's
tests, the writer's output).  The tokenizer is deliberately strict: anything it does not
understand raises Untokenizable and the caller decides (SKIP for harness inputs, a failed
`Accepted` clause for text produced by the implementation).
"""
import re


class Untokenizable(Exception):
    pass


# ----------------------------------------------------------------------------------------------
# annotations
# ----------------------------------------------------------------------------------------------
def render_entry(e):
    if e["k"] == "":
        return e["v"]
    return e["k"] + "=" + e["v"]


def parse_entries(text):
    """'q=1;0.5;foo=bar' -> entries.  text is what follows the first ';' (may be '')."""
    if text == "":
        return []
    out = []
    for part in text.split(";"):
        eq = part.count("=")
        if eq == 0:
            out.append({"k": "", "v": part, "eq": 0})
        else:
            k, v = part.split("=", 1)
            out.append({"k": k, "v": v, "eq": eq})
    return out


# ----------------------------------------------------------------------------------------------
# graph notation
# ----------------------------------------------------------------------------------------------
def tok(k, v="", n=0, a=None):
    return {"k": k, "v": v, "n": n, "a": list(a or [])}


def render_graph_tokens(tokens, braces=True):
    out = []
    for t in tokens:
        k = t["k"]
        if k == "N":
            out.append("[#" + t["v"] + "".join(";" + render_entry(e) for e in t["a"]) + "]")
        elif k == "B":
            out.append(t["v"])
        elif k == "R":
            out.append(str(t["n"]) if t["v"] == "d" else "%%%02d" % t["n"])
        elif k in "()":
            out.append(k)
        elif k == "M":
            out.append("|%d" % t["n"])
        else:
            raise ValueError(k)
    s = "".join(out)
    return "{" + s + "}" if braces else s


_SYMS = ".-=#$"


def tokenize_graph(text):
    """Tokenize a CGsmiles graph string ('{...}' or bare)."""
    s = text.strip()
    if s.startswith("{") and s.endswith("}"):
        s = s[1:-1]
    toks = []
    i = 0
    n = len(s)
    while i < n:
        c = s[i]
        if c == "[":
            j = s.find("]", i)
            if j < 0 or s[i + 1:i + 2] != "#":
                raise Untokenizable(text)
            body = s[i + 2:j]
            name, _, ann = body.partition(";")
            if not re.fullmatch(r"\w+", name):
                raise Untokenizable(text)
            toks.append(tok("N", name, 0, parse_entries(ann) if ";" in body else []))
            i = j + 1
        elif c in _SYMS:
            toks.append(tok("B", c))
            i += 1
        elif c == "%":
            m = re.match(r"%(\d\d)", s[i:])
            if not m:
                raise Untokenizable(text)
            # the reader swallows all following digits into a % marker
            m2 = re.match(r"%(\d+)", s[i:])
            if len(m2.group(1)) != 2:
                raise Untokenizable(text)
            toks.append(tok("R", "%", int(m.group(1))))
            i += 3
        elif c.isdigit():
            toks.append(tok("R", "d", int(c)))
            i += 1
        elif c in "()":
            toks.append(tok(c))
            i += 1
        elif c == "|":
            m = re.match(r"\|(\d+)", s[i:])
            if not m:
                raise Untokenizable(text)
            toks.append(tok("M", "", int(m.group(1))))
            i += len(m.group(0))
        else:
            raise Untokenizable(text)
    return toks


# ----------------------------------------------------------------------------------------------
# fragment texts
# ----------------------------------------------------------------------------------------------
def ftok(k, v="", n=0, a=None, el="", ar=False, ch=0, hc=0):
    return {"k": k, "v": v, "n": n, "a": list(a or []), "el": el, "ar": ar, "ch": ch, "hc": hc}


def render_fragment_tokens(tokens):
    out = []
    for t in tokens:
        k = t["k"]
        if k == "A":
            if t["a"]:
                assert t["v"].endswith("]")
                out.append(t["v"][:-1] + "".join(";" + render_entry(e) for e in t["a"]) + "]")
            else:
                out.append(t["v"])
        elif k == "D":
            out.append("[" + t["v"] + t["el"] + "]")
        elif k == "B":
            out.append(t["v"])
        elif k == "R":
            out.append(str(t["n"]) if t["v"] == "d" else "%%%02d" % t["n"])
        elif k in "()":
            out.append(k)
        elif k == "Z":
            out.append(t["v"])
        else:
            raise ValueError(k)
    return "".join(out)


_ORGANIC = ["Cl", "Br", "B", "C", "N", "O", "P", "S", "F", "I"]
_AROM = ["b", "c", "n", "o", "p", "s"]
_BRACKET = re.compile(r"\[(\d+)?([A-Z][a-z]?|[a-z]|\*)(@{1,2})?(H\d?)?(\+\d?|-\d?|\+\++|--+)?(?::\d+)?\]")


def _parse_bracket_atom(body_txt):
    """'[NH3+]' -> (el, aromatic, charge, hcount) or raise."""
    m = _BRACKET.fullmatch(body_txt)
    if not m:
        raise Untokenizable(body_txt)
    sym = m.group(2)
    ar = sym.islower()
    el = sym.capitalize() if sym != "*" else "*"
    h = m.group(4)
    hc = 0 if not h else (1 if h == "H" else int(h[1:]))
    c = m.group(5)
    if not c:
        ch = 0
    elif c in ("+", "-"):
        ch = 1 if c == "+" else -1
    elif c[1:].isdigit():
        ch = int(c[1:]) * (1 if c[0] == "+" else -1)
    else:
        ch = len(c) * (1 if c[0] == "+" else -1)
    return el, ar, ch, hc


def tokenize_fragment(text, coarse=False):
    """Tokenize a fragment text (the part behind '#name=')."""
    s = text
    toks = []
    i, n = 0, len(s)
    while i < n:
        c = s[i]
        if c == "[":
            j = s.find("]", i)
            if j < 0:
                raise Untokenizable(text)
            body = s[i + 1:j]
            if body[:1] in "$><!":
                toks.append(ftok("D", body[0], el=body[1:]))
            elif body[:1] == "#":
                name, sep, ann = body[1:].partition(";")
                if not re.fullmatch(r"\w+", name):
                    raise Untokenizable(text)
                toks.append(ftok("A", "[#" + name + "]", a=parse_entries(ann) if sep else [], el=name))
            else:
                core, sep, ann = body.partition(";")
                el, ar, ch, hc = _parse_bracket_atom("[" + core + "]")
                toks.append(ftok("A", "[" + core + "]", a=parse_entries(ann) if sep else [], el=el, ar=ar, ch=ch, hc=hc))
            i = j + 1
        elif c in ".-=#$:":
            toks.append(ftok("B", c))
            i += 1
        elif c == "%":
            m = re.match(r"%(\d\d)(?!\d)", s[i:])
            if not m:
                raise Untokenizable(text)
            toks.append(ftok("R", "%", int(m.group(1))))
            i += 3
        elif c.isdigit():
            toks.append(ftok("R", "d", int(c)))
            i += 1
        elif c in "()":
            toks.append(ftok(c))
            i += 1
        elif c in "/\\":
            toks.append(ftok("Z", c))
            i += 1
        else:
            two = s[i:i + 2]
            if two in ("Cl", "Br"):
                toks.append(ftok("A", two, el=two, hc=-2))
                i += 2
            elif c in _ORGANIC:
                toks.append(ftok("A", c, el=c, hc=-2))
                i += 1
            elif c in _AROM:
                toks.append(ftok("A", c, el=c.upper(), ar=True, hc=-2))
                i += 1
            else:
                raise Untokenizable(text)
    return toks
