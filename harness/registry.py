"""Property id -> check function(tier) -> exit code."""


def _lazy(mod, fn):
    def call(tier):
        import importlib
        m = importlib.import_module("harness.props." + mod)
        return getattr(m, fn)(tier)
    return call


CHECKS = {
    "C01": _lazy("resolve", "run_c01"),
    "C02": _lazy("resolve", "run_c02"),
    "C03": _lazy("resolve", "run_c03"),
    "C06": _lazy("resolve", "run_c06"),
    "C07": _lazy("writer", "run_c07"),
    "C08": _lazy("writer", "run_c08"),
    "C09": _lazy("resolve", "run_c09"),
    "C10": _lazy("resolve", "run_c10"),
    "C11": _lazy("resolve", "run_c11"),
    "C12": _lazy("resolve", "run_c12"),
    "C04": _lazy("graph", "run_c04"),
    "C05": _lazy("graph", "run_c05"),
    "C13": _lazy("frag", "run_c13"),
    "C14": _lazy("annot", "run_c14"),
    "C15": _lazy("resolve", "run_c15"),
    "C16": _lazy("sampler", "run_c16"),
    "C17": _lazy("sampler", "run_c17"),
    "C18": _lazy("geom", "run_c18"),
    "C19": _lazy("geom", "run_c19"),
    "C20": _lazy("graph", "run_c20"),
}
