"""
Verdict bookkeeping shared by all checks: violations vs. known findings, replay files,
evidence files, exit codes.

exit 0  property held on everything explored (listed known findings are printed, not alarms)
exit 1  + 'VIOLATION property=<id> replay=<path>' for anything else
exit 2  machinery failure only
"""
import json
import os
import sys

from . import common, findings


class Check:
    def __init__(self, pid, level="model_checking", tier=None):
        self.pid = pid
        self.level = level
        self.tier = tier or common.TIER
        self.timer = common.Timer()
        self.states = 0
        self.transitions = 0
        self.traces = 0
        self.evaluations = 0
        self.skipped = 0
        self.nontrivial = set()
        self.samples = []
        self.violations = []
        self.known_hits = {}
        self.clause_counts = {}
        self.assumptions = []
        self.extra = {}
        self.rule = ""
        self.exhaustive = False
        self.mc_runs = []
        import glob
        for f in glob.glob(os.path.join(common.REPLAY, f"{pid}-*.json")):
            try:
                os.remove(f)
            except OSError:
                pass

    # ---- model-checking runs -------------------------------------------------------------
    def add_mc(self, name, result, constants=None):
        self.states += result.distinct
        self.transitions += result.generated
        self.mc_runs.append({"model": name, "distinct_states": result.distinct,
                             "states_generated": result.generated, "wall_s": result.wall,
                             "constants": constants or {}})
        if result.errors and not result.violated:
            from .tlc import TLCError
            raise TLCError(f"TLC error in model {name}: {result.errors[0][:1500]}")
        if result.errors:
            # a design-level invariant failed in the model itself: report as a violation of the
            # property with the TLC counterexample as replay
            self.violation("model:" + (",".join(result.violated) or "error"),
                           {"model": name, "constants": constants},
                           {"tlc": result.errors[0][:4000]})

    def add_tv(self, stats):
        self.states += stats.get("distinct", 0)
        self.transitions += stats.get("generated", 0)

    # ---- per-trace verdicts --------------------------------------------------------------
    def count_clause(self, name, ok, active=True):
        c = self.clause_counts.setdefault(name, {"true": 0, "false": 0, "active": 0})
        c["true" if ok else "false"] += 1
        if active:
            c["active"] += 1

    def sample(self, obj, limit=6):
        if len(self.samples) < limit:
            self.samples.append(obj)

    def violation(self, clause, record, verdict):
        """Record a failing clause; demoted to a known finding if it matches a listed one."""
        kf = findings.match(self.pid, clause, record, verdict)
        if kf is not None:
            self.known_hits[kf["id"]] = self.known_hits.get(kf["id"], 0) + 1
            return False
        self.violations.append({"clause": clause, "record": record, "verdict": verdict})
        return True

    # ---- finish --------------------------------------------------------------------------
    def finish(self):
        os.makedirs(common.REPLAY, exist_ok=True)
        lines = []
        for kf in findings.listed(self.pid):
            hits = self.known_hits.get(kf["id"], 0)
            still = findings.witness_still_fails(kf)
            if still is None or still:
                print(f"KNOWN-FINDING: property={self.pid} {kf['id']}: {kf['what']} "
                      f"(hits this run: {hits})")
            else:
                print(f"NOTE: listed finding {kf['id']} no longer reproduces on its witness")
        seen = set()
        nviol = 0
        for v in self.violations:
            key = (v["clause"], json.dumps(v["record"].get("key", v["record"]), sort_keys=True, default=str)[:300])
            if key in seen:
                continue
            seen.add(key)
            nviol += 1
            if nviol > 25:
                continue
            path = os.path.join(common.REPLAY, f"{self.pid}-{nviol}.json")
            common.dump_json(path, {"property": self.pid, "clause": v["clause"], "record": v["record"],
                                    "verdict": v["verdict"], "seed": common.SEED, "tier": self.tier})
            lines.append(f"VIOLATION property={self.pid} replay={path} clause={v['clause']}")
        cov = {
            "evaluations": self.evaluations,
            "distinct_nontrivial": len(self.nontrivial),
            "rule": self.rule,
            "samples": self.samples or [{"note": "no sample recorded"}],
            "states": max(self.states, 0),
            "transitions": max(self.transitions, 0),
            "traces_validated_against_impl": self.traces,
            "skipped_out_of_domain": self.skipped,
            "known_findings_hit": self.known_hits,
            "clauses": self.clause_counts,
            "exhaustive": self.exhaustive,
            "models": self.mc_runs,
        }
        if self.level == "other":
            cov["explanation"] = self.extra.pop("explanation", self.rule)
        cov.update(self.extra)
        ev = {"property_id": self.pid, "tier": self.tier, "seed": common.SEED, "level": self.level,
              "coverage": cov, "assumptions": self.assumptions, "wall_s": self.timer(),
              "violations": nviol}
        common.dump_json(os.path.join(common.EVIDENCE, f"{self.pid}.json"), ev)
        for ln in lines:
            print(ln)
        print(f"{self.pid} tier={self.tier} seed={common.SEED}: evaluations={self.evaluations} "
              f"traces={self.traces} skipped={self.skipped} states={self.states} "
              f"known={sum(self.known_hits.values())} violations={nviol} wall={self.timer()}s")
        return 1 if nviol else 0


def main_wrapper(fn):
    """Run a check function; map machinery failures to exit 2."""
    from .tlc import TLCError
    try:
        rc = fn()
    except TLCError as exc:
        print(f"MACHINERY-FAILURE: {exc}", file=sys.stderr)
        sys.exit(2)
    except Exception:
        # a crash of the harness itself is never a verdict about the property (exit 1 is reserved for VIOLATION lines)
        import traceback
        traceback.print_exc()
        print("MACHINERY-FAILURE: unhandled exception in the harness", file=sys.stderr)
        sys.exit(2)
    sys.exit(rc)
