"""
Shared runtime for the CGsmiles verification harness.

* imports the *current working tree* of the repository ($CGSMILES_REPO, default /repo)
* scratch directories outside /repo and /verif, removed at exit
* seed / tier handling
* the observation guard CGSMILES_VERIF (harness-side interposition only; no source hooks)
"""
import atexit
import json
import os
import random
import shutil
import sys
import tempfile
import time

VERIF = os.path.dirname(os.path.dirname(os.path.abspath(__file__)))
REPO = os.environ.get("CGSMILES_REPO", "/repo")
SPEC = os.path.join(VERIF, "spec")
# evidence/ and replay/ describe /repo.  When the harness is pointed at a scratch copy of the repository (CGSMILES_REPO,
# used by tools/seed_matrix.py and tools/benign_matrix.py) the files go next to that copy instead.
_OUT = VERIF if REPO == "/repo" else os.path.join(os.path.dirname(os.path.abspath(REPO)), "verif-out")
EVIDENCE = os.path.join(_OUT, "evidence")
REPLAY = os.path.join(_OUT, "replay")
GUARD = "CGSMILES_VERIF"

os.environ.setdefault("PBR_VERSION", "0.0.1")
os.environ.setdefault("PYTHONDONTWRITEBYTECODE", "1")
os.environ[GUARD] = "1"
sys.dont_write_bytecode = True
if REPO not in sys.path:
    sys.path.insert(0, REPO)

SEED = int(os.environ.get("VERIF_SEED", "0") or 0)
TIER = os.environ.get("VERIF_TIER", "quick")
NCPU = max(1, min(16, os.cpu_count() or 1))

_SCRATCH_ROOT = os.environ.get("VERIF_SCRATCH", "/var/tmp")
_scratch_dirs = []


def scratch(prefix="cgsverif-"):
    """A fresh scratch directory (outside /repo and /verif), removed at exit."""
    os.makedirs(_SCRATCH_ROOT, exist_ok=True)
    d = tempfile.mkdtemp(prefix=prefix, dir=_SCRATCH_ROOT)
    _scratch_dirs.append(d)
    return d


def _cleanup():
    for d in _scratch_dirs:
        shutil.rmtree(d, ignore_errors=True)


atexit.register(_cleanup)


def rng(tag=""):
    """Deterministic RNG derived from VERIF_SEED and a tag."""
    return random.Random(f"{SEED}:{tag}")


class Timer:
    def __init__(self):
        self.t0 = time.time()

    def __call__(self):
        return round(time.time() - self.t0, 2)


def dump_json(path, obj):
    os.makedirs(os.path.dirname(path), exist_ok=True)
    with open(path, "w") as fh:
        json.dump(obj, fh, indent=1, sort_keys=True, default=str)


def fmt_float(x):
    """Canonical spelling of a number as logged to TLC (repr of float)."""
    if isinstance(x, bool):
        return repr(x)
    if isinstance(x, (int, float)):
        return repr(float(x))
    try:
        import numpy as np
        if isinstance(x, np.generic):
            return repr(float(x))
    except Exception:
        pass
    return str(x)


def ord2(order):
    """Bond orders are logged doubled (1.5 -> 3) so TLC stays in the integers."""
    v = float(order) * 2
    iv = int(round(v))
    if abs(v - iv) > 1e-9:
        raise ValueError(f"order {order} not representable")
    return iv
