"""
Projection of implementation results to the abstract state logged for TLC.
Only documented attributes are read; nothing is guessed.
"""
from .common import fmt_float, ord2


import contextlib
import io


@contextlib.contextmanager
def quiet():
    """The library prints diagnostics on some error paths; keep check output clean."""
    with contextlib.redirect_stdout(io.StringIO()):
        yield


def outcome_of(exc):
    return "exc:" + type(exc).__name__


def attr_pairs(attrs, skip=()):
    out = []
    for k, v in attrs.items():
        if k in skip or k in ("_atom_str", "_pos"):      # (pysmiles' private bookkeeping)
            continue
        out.append([str(k), fmt_float(v)])
    out.sort()
    return out


def project_cg_graph(g):
    """Graph returned by read_cgsmiles: nodes by key, names, attribute pairs, edges with order."""
    keys = sorted(g.nodes)
    nodes = []
    for k in keys:
        a = dict(g.nodes[k])
        nodes.append({"name": str(a.get("fragname")), "attrs": attr_pairs(a)})
    edges = []
    for a, b, d in g.edges(data=True):
        lo, hi = (a, b) if a < b else (b, a)
        edges.append([lo, hi, int(d.get("order")) if float(d.get("order")).is_integer() else -1])
    edges.sort()
    return {"outcome": "ok", "keys": list(keys), "nodes": nodes, "edges": edges}


def empty_obs(outcome):
    return {"outcome": outcome, "keys": [], "nodes": [], "edges": []}


def run_read(text):
    """read_cgsmiles(text) -> observation (logged at the call's return or exception)."""
    from cgsmiles import read_cgsmiles
    try:
        with quiet():
            g = read_cgsmiles(text)
    except Exception as exc:  # the outcome is part of the observation
        return empty_obs(outcome_of(exc)), None
    return project_cg_graph(g), g


def run_strip(text):
    """strip_bonding_descriptors(text) -> observation."""
    from cgsmiles.read_fragments import strip_bonding_descriptors
    try:
        with quiet():
            clean, desc, ez, ann = strip_bonding_descriptors(text)
    except Exception as exc:
        return {"outcome": outcome_of(exc), "clean": "", "desc": [], "ann": [], "ez": []}
    return {"outcome": "ok", "clean": clean,
            "desc": [[int(k), [str(x) for x in v]] for k, v in sorted(desc.items())],
            "ann": [[int(k), attr_pairs(v)] for k, v in sorted(ann.items())],
            "ez": [[int(k), str(v)] for k, v in sorted(ez.items())]}


# ----------------------------------------------------------------------------------------------
# resolver output
# ----------------------------------------------------------------------------------------------
_STRUCT_KEYS = {"fragid", "fragname", "mapping", "bonding", "graph", "atomname", "element", "charge", "aromatic",
                "hcount", "contraction", "ez_isomer_atoms", "ez_isomer", "ez_isomer_class", "single_h_frag",
                "isotope", "class", "rs_isomer", "position", "stereo"}


def _num(x):
    try:
        return int(x) if float(x).is_integer() else x
    except Exception:
        return x


def _name_split(name):
    import re
    m = re.fullmatch(r"([A-Za-z*]+)(\d+)", str(name) if name is not None else "")
    return (m.group(1), int(m.group(2))) if m else ("", -1)


def project_fine(g, all_atom):
    """Fine graph returned by resolve(): full abstract state, projected when it is yielded."""
    keys = list(g.nodes)
    nodes = []
    for k in sorted(keys, key=lambda x: (str(type(x)), x)):
        a = g.nodes[k]
        el = a.get("element") if all_atom else None
        name = a.get("atomname")
        nodes.append({
            "id": k,
            "el": str(el) if el is not None else "",
            "name": "" if name is None else str(name),
            "chg": int(a.get("charge", 0) or 0) if all_atom else 0,
            "arom": bool(a.get("aromatic", False)),
            "fragid": [int(x) for x in (a.get("fragid") or [])] if isinstance(a.get("fragid"), (list, tuple)) else [-999],
            "fragname": "" if a.get("fragname") is None else str(a.get("fragname")),
            "map": [[str(m[0]), int(m[1])] for m in (a.get("mapping") or [])],
            "desc": [str(x) for x in (a.get("bonding") or [])],
            "attrs": attr_pairs({kk: vv for kk, vv in a.items() if kk not in _STRUCT_KEYS}),
            "raw_charge": fmt_float(a["charge"]) if "charge" in a else "",
            "isH": bool(all_atom and a.get("element") == "H"),
            "chiral": "" if a.get("chiral") is None else str(a.get("chiral")),
            "name_el": _name_split(name)[0], "name_idx": _name_split(name)[1],
            "ez": [[int(x[0]), int(x[1]), int(x[2]), int(x[3]), str(x[4])] for x in (a.get("ez_isomer") or [])],
        })
    edges = []
    for a, b, d in g.edges(data=True):
        lo, hi = (a, b) if a < b else (b, a)
        bd = d.get("bonding")
        edges.append([lo, hi, ord2(d.get("order", 1)), [str(bd[0]), str(bd[1])] if bd else []])
    edges.sort(key=lambda e: (e[0], e[1]))
    return {"nodes": nodes, "edges": edges, "iter_order": keys}


def project_coarse(meta):
    nodes = []
    for k in sorted(meta.nodes):
        a = meta.nodes[k]
        gr = a.get("graph")
        nodes.append({"id": k, "name": "" if a.get("fragname") is None else str(a.get("fragname")),
                      "attrs": attr_pairs({kk: vv for kk, vv in a.items() if kk not in _STRUCT_KEYS}),
                      "raw_charge": fmt_float(a["charge"]) if "charge" in a else "",
                      "has_graph": gr is not None,
                      "graph": sorted(gr.nodes) if gr is not None else [],
                      "graph_edges": sorted([min(x, y), max(x, y)] for x, y in gr.edges) if gr is not None else []})
    edges = []
    for a, b, d in meta.edges(data=True):
        lo, hi = (a, b) if a < b else (b, a)
        edges.append([lo, hi, _num(d.get("order", 1))])
    edges.sort()
    return {"nodes": nodes, "edges": edges}


def make_resolver(text, last_all_atom=True, legacy=True, ctor="from_string"):
    """the three documented constructors, fed from the same complete string"""
    import re
    from cgsmiles import MoleculeResolver, read_cgsmiles
    from cgsmiles.read_fragments import read_fragments
    if ctor == "from_string":
        return MoleculeResolver.from_string(text, last_all_atom=last_all_atom, legacy=legacy)
    elements = re.findall(r"\{[^\}]+\}", text)
    if ctor == "from_graph":
        base = read_cgsmiles(elements[0])
        return MoleculeResolver.from_graph(".".join(elements[1:]), base, last_all_atom=last_all_atom, legacy=legacy)
    if ctor == "from_fragment_dicts":
        dicts = []
        for i, blk in enumerate(elements[1:]):
            dicts.append(read_fragments(blk, all_atom=(last_all_atom and i == len(elements) - 2)))
        return MoleculeResolver.from_fragment_dicts(elements[0], dicts, last_all_atom=last_all_atom, legacy=legacy)
    raise ValueError(ctor)


def run_resolve(text, last_all_atom=True, legacy=True, levels=None, driver="resolve", ctor="from_string"):
    """
    A MoleculeResolver built from `text` with constructor `ctor`, driven to its last level (or `levels` steps).
    Returns observation with one entry per yielded level, each projected at yield time.
    """
    steps = []
    try:
        with quiet():
            r = make_resolver(text, last_all_atom, legacy, ctor)
            n = r.resolutions if levels is None else levels
            if driver == "resolve":
                for i in range(n):
                    meta, mol = r.resolve()
                    aa = last_all_atom and (i == r.resolutions - 1)
                    steps.append({"coarse": project_coarse(meta), "fine": project_fine(mol, aa), "all_atom": aa})
            elif driver == "resolve_iter":
                for i, (meta, mol) in enumerate(r.resolve_iter()):
                    aa = last_all_atom and (i == r.resolutions - 1)
                    steps.append({"coarse": project_coarse(meta), "fine": project_fine(mol, aa), "all_atom": aa})
            elif driver == "resolve_all":
                meta, mol = r.resolve_all()
                steps.append({"coarse": project_coarse(meta), "fine": project_fine(mol, last_all_atom), "all_atom": last_all_atom})
            else:
                raise ValueError(driver)
    except Exception as exc:
        return {"outcome": outcome_of(exc), "steps": steps, "msg": str(exc)[:200]}
    return {"outcome": "ok", "steps": steps}
