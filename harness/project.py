"""
Projection of implementation results to the abstract state logged for TLC.
Only documented attributes are read; nothing is guessed.
"""
from .common import fmt_float, ord2


import contextlib
import io


@contextlib.contextmanager
def quiet():
    """The library prints diagnostics on some error paths; keep check output clean."""
    with contextlib.redirect_stdout(io.StringIO()):
        yield


def outcome_of(exc):
    return "exc:" + type(exc).__name__


def attr_pairs(attrs, skip=()):
    out = []
    for k, v in attrs.items():
        if k in skip:
            continue
        out.append([str(k), fmt_float(v)])
    out.sort()
    return out


def project_cg_graph(g):
    """Graph returned by read_cgsmiles: nodes by key, names, attribute pairs, edges with order."""
    keys = sorted(g.nodes)
    nodes = []
    for k in keys:
        a = dict(g.nodes[k])
        nodes.append({"name": str(a.get("fragname")), "attrs": attr_pairs(a)})
    edges = []
    for a, b, d in g.edges(data=True):
        lo, hi = (a, b) if a < b else (b, a)
        edges.append([lo, hi, int(d.get("order")) if float(d.get("order")).is_integer() else -1])
    edges.sort()
    return {"outcome": "ok", "keys": list(keys), "nodes": nodes, "edges": edges}


def empty_obs(outcome):
    return {"outcome": outcome, "keys": [], "nodes": [], "edges": []}


def run_read(text):
    """read_cgsmiles(text) -> observation (logged at the call's return or exception)."""
    from cgsmiles import read_cgsmiles
    try:
        with quiet():
            g = read_cgsmiles(text)
    except Exception as exc:  # the outcome is part of the observation
        return empty_obs(outcome_of(exc)), None
    return project_cg_graph(g), g


def run_strip(text):
    """strip_bonding_descriptors(text) -> observation."""
    from cgsmiles.read_fragments import strip_bonding_descriptors
    try:
        with quiet():
            clean, desc, ez, ann = strip_bonding_descriptors(text)
    except Exception as exc:
        return {"outcome": outcome_of(exc), "clean": "", "desc": [], "ann": [], "ez": []}
    return {"outcome": "ok", "clean": clean,
            "desc": [[int(k), [str(x) for x in v]] for k, v in sorted(desc.items())],
            "ann": [[int(k), attr_pairs(v)] for k, v in sorted(ann.items())],
            "ez": [[int(k), str(v)] for k, v in sorted(ez.items())]}
