"""
Running MoleculeSampler with the harness-side RNG interposition and deriving the growth events
from the returned molecule (documented attributes only: fragid, fragname, bonding, element, order).
"""
import random as _random
import re

from . import common, project, render
from .samplercfgs import parse_desc


class LoggingRandom:
    """stands in for the `random` module inside cgsmiles.sample (harness process only, guard CGSMILES_VERIF)"""
    def __init__(self):
        self.rng = _random.Random()
        self.log = []

    def seed(self, a=None):
        self.rng.seed(a)
        self.log.append(("seed", a))

    def choice(self, seq):
        seq = list(seq)
        entry = ["choice", seq, None, None]
        self.log.append(entry)
        entry[3] = self.rng.choice(seq)
        return entry[3]

    def choices(self, population, weights=None, k=1):
        pop = list(population)
        w = [float(x) for x in weights] if weights is not None else None
        entry = ["choices", pop, w, None]
        self.log.append(entry)
        res = self.rng.choices(pop, weights=weights, k=k)
        entry[3] = res[0]
        return res

    def __getattr__(self, name):
        return getattr(self.rng, name)


def install():
    """returns the logger, or None if the attribute to wrap is missing (fallback: output-only observation)"""
    import os
    import cgsmiles.sample as S
    if os.environ.get(common.GUARD) != "1" or not hasattr(S, "random"):
        return None
    lr = LoggingRandom()
    S.random = lr
    return lr


def run_sampler(cfg, seed, target, lr=None):
    from cgsmiles import MoleculeSampler
    if lr is not None:
        del lr.log[:]
    try:
        with project.quiet():
            s = MoleculeSampler.from_fragment_string(cfg["frags"], polymer_reactivities=dict(cfg["react"]),
                                                     fragment_reactivities={k: dict(v) for k, v in cfg["cond"].items()},
                                                     terminal_bonds=list(cfg["terminal"]),
                                                     fragment_masses=dict(cfg["masses"]) if cfg.get("masses") else None,
                                                     all_atom=cfg["all_atom"], seed=seed)
            masses = dict(s.fragment_masses)
            # every molecule a sampler returns is a sample: in a third of the runs the observed molecule is the SECOND
            # one drawn from the same sampler object (the first is discarded; a dead end there is of no interest)
            if seed % 3 == 2:
                try:
                    s.sample(target, start_fragment=cfg.get("start_fragment"))
                except Exception:
                    pass
                if lr is not None:
                    del lr.log[:]
            mol = s.sample(target, start_fragment=cfg.get("start_fragment"))
    except Exception as exc:
        return {"outcome": project.outcome_of(exc), "msg": str(exc)[:120], "log": list(lr.log) if lr is not None else None,
                "masses": locals().get("masses")}
    return {"outcome": "ok", "mol": mol, "masses": masses, "log": list(lr.log) if lr is not None else None}


def frag_tokens(cfg):
    from .props.resolve import parse_fragment_block
    return parse_fragment_block(cfg["frags"], coarse=not cfg["all_atom"])


def triples(lst):
    return [parse_desc(x) for x in lst]


def dead_end_record(cfg, seed, target, res):
    """Total wrapper: a draw log that does not have the shape the reconstruction relies on (four draws per complete step in
    the order site descriptor / node / partner / (fragment, node) - e.g. because a changed implementation draws differently)
    yields no dead-end record instead of a harness crash; the run then counts as a skipped dead end."""
    try:
        return _dead_end_record(cfg, seed, target, res)
    except (TypeError, ValueError, IndexError, KeyError):
        return None


def _dead_end_record(cfg, seed, target, res):
    """A run that raised: the growth events are reconstructed from the RNG log alone (every complete step logged four
    draws with their results; node keys are merge offsets) and the draws of the failing step say where it failed."""
    log = res.get("log")
    if log is None or res.get("masses") is None:
        return None
    frags = frag_tokens(cfg)
    names = [f[0] for f in frags]
    natoms = [sum(1 for t in f[1] if t["k"] == "A") for f in frags]
    calls = [x for x in log if x[0] != "seed"]
    if cfg.get("start_fragment"):
        start = names.index(cfg["start_fragment"]) + 1
    else:
        if not calls or calls[0][3] is None:
            return None
        start = names.index(calls[0][3]) + 1
        calls = calls[1:]
    copies = [start]
    offsets = [0]
    events = []
    i = 0
    while i + 4 <= len(calls) and all(c[3] is not None for c in calls[i:i + 4]):
        d, node, p, (fname, tnode) = calls[i][3], calls[i + 1][3], calls[i + 2][3], calls[i + 3][3]
        c = max(k for k in range(len(offsets)) if offsets[k] <= node)
        events.append({"site": [c + 1, node - offsets[c] + 1], "d": parse_desc(d), "p": parse_desc(p),
                       "f": names.index(fname) + 1, "t": tnode + 1, "o2": 2 * parse_desc(d)[2]})   # no molecule to read the bond from
        offsets.append(offsets[-1] + natoms[copies[-1] - 1])
        copies.append(names.index(fname) + 1)
        i += 4
    rest = calls[i:]
    done = [c for c in rest if c[3] is not None]
    K = {"frags": frags, "coarse": not cfg["all_atom"],
         "masses": [int(round(float(res["masses"][n]) * 1000)) for n in names],
         "react": [[parse_desc(k), float(v) > 0] for k, v in cfg["react"].items()],
         "cond": [[parse_desc(k), parse_desc(k2), float(v2) > 0] for k, v in cfg["cond"].items() for k2, v2 in v.items()],
         "terminal": [parse_desc(x) for x in cfg["terminal"]], "target": int(round(target * 1000))}
    return {"K": K, "start": start, "want_start": 0, "events": events, "final_open": [], "draws": [], "tree_ok": True,
            "dead": {"outcome": res["outcome"], "completed_draws": len(done), "attempted_draws": len(rest),
                     "d": parse_desc(done[0][3]) if done else ["", "", 0]},
            "cfg": cfg["name"], "seed": seed, "target": target}


def observe(cfg, seed, target, lr=None):
    """-> (sampler trace record, resolve-like record) or (None, reason)"""
    res = run_sampler(cfg, seed, target, lr)
    if res["outcome"] != "ok":
        res["dead_record"] = dead_end_record(cfg, seed, target, res)
        return None, res
    mol = res["mol"]
    all_atom = cfg["all_atom"]
    frags = frag_tokens(cfg)
    names = [f[0] for f in frags]
    fine = project.project_fine(mol, all_atom)
    nodes = fine["nodes"]
    copies = sorted({n["fragid"][0] for n in nodes})
    tree_ok = copies == list(range(len(copies)))
    by_copy = {c: [n for n in nodes if n["fragid"] == [c]] for c in copies}
    heavy = {c: [n for n in by_copy[c] if not (all_atom and n["isH"])] for c in copies}
    atom_of = {}
    copy_frag = {}
    for c in copies:
        fn = heavy[c][0]["fragname"] if heavy[c] else ""
        copy_frag[c] = names.index(fn) + 1 if fn in names else 0
        for k, n in enumerate(heavy[c]):
            atom_of[n["id"]] = (c + 1, k + 1)
            n["map"] = [[fn, k]]
    events = []
    inter = [e for e in fine["edges"] if e[0] in atom_of and e[1] in atom_of and atom_of[e[0]][0] != atom_of[e[1]][0]]
    for c in copies[1:]:
        mine = [e for e in inter if max(atom_of[e[0]][0], atom_of[e[1]][0]) == c + 1]
        if len(mine) != 1 or not mine[0][3]:
            tree_ok = False
            break
        e = mine[0]
        a, b = (e[0], e[1]) if atom_of[e[0]][0] < atom_of[e[1]][0] else (e[1], e[0])
        events.append({"site": list(atom_of[a]), "d": parse_desc(e[3][0]), "p": parse_desc(e[3][1]),
                       "f": copy_frag[c], "t": atom_of[b][1], "o2": e[2]})
    if len(inter) != len(copies) - 1:
        tree_ok = False
    final_open = [[atom_of[n["id"]][0], atom_of[n["id"]][1], triples(n["desc"])] for c in copies for n in heavy[c]]
    # RNG log -> per-step offered populations
    draws = []
    log = res.get("log")
    if log is not None:
        calls = [x for x in log if x[0] != "seed"]
        if cfg.get("start_fragment") is None:
            calls = calls[1:]
        if len(calls) == 4 * len(events):
            for i in range(len(events)):
                c1, c3 = calls[4 * i], calls[4 * i + 2]

                def pop(c):
                    w = c[2]
                    return [[parse_desc(x), bool(w is None or (w[j] == w[j] and w[j] > 0))] for j, x in enumerate(c[1])]
                draws.append({"site_pop": pop(c1), "partner_pop": pop(c3)})
    K = {"frags": frags, "coarse": not all_atom,
         "masses": [int(round(float(res["masses"][n]) * 1000)) for n in names],
         "react": [[parse_desc(k), float(v) > 0] for k, v in cfg["react"].items()],
         "cond": [[parse_desc(k), parse_desc(k2), float(v2) > 0] for k, v in cfg["cond"].items() for k2, v2 in v.items()],
         "terminal": [parse_desc(x) for x in cfg["terminal"]], "target": int(round(target * 1000))}
    rec = {"K": K, "start": copy_frag.get(0, 0), "want_start": (names.index(cfg["start_fragment"]) + 1) if cfg.get("start_fragment") else 0,
           "events": events, "final_open": final_open, "draws": draws,
           "tree_ok": bool(tree_ok), "cfg": cfg["name"], "seed": seed, "target": target}
    # the sample seen as a resolved molecule: coarse nodes = copies, base edges = the links
    coarse = {"nodes": [{"id": c, "name": names[copy_frag[c] - 1] if copy_frag[c] else "", "attrs": [], "raw_charge": "",
                         "has_graph": True, "graph": [n["id"] for n in by_copy[c]], "graph_edges": []} for c in copies],
              "edges": []}
    bedges = sorted({(min(atom_of[e[0]][0], atom_of[e[1]][0]) - 1, max(atom_of[e[0]][0], atom_of[e[1]][0]) - 1) for e in inter})
    rrec = {"mode": "resolve", "text": "%s seed=%s target=%s" % (cfg["name"], seed, target), "level": 0,
            "basekind": "graph", "base": [], "basegraph": {"names": [c["name"] for c in coarse["nodes"]],
                                                         "edges": [[a, b, 1] for a, b in bedges]},
            "frags": frags, "fragcoarse": not all_atom, "legacy": False, "allAtom": all_atom,
            "obs": {"outcome": "ok", "coarse": coarse, "fine": {"nodes": nodes, "edges": fine["edges"]}}}
    return rec, rrec
