import argparse
import os
import sys

from . import common


def main():
    ap = argparse.ArgumentParser()
    ap.add_argument("what")
    ap.add_argument("arg", nargs="?")
    ap.add_argument("--tier", default=os.environ.get("VERIF_TIER", "quick"), choices=["quick", "thorough"])
    a = ap.parse_args()
    common.TIER = a.tier
    from .report import main_wrapper
    what = a.what
    if what == "setup":
        from . import tlc
        bad = 0
        for f in sorted(os.listdir(common.SPEC)):
            if f.endswith(".tla"):
                ok, out = tlc.sany(f[:-4])
                print(("ok   " if ok else "FAIL ") + f)
                if not ok:
                    print(out[-1500:])
                    bad += 1
        sys.exit(1 if bad else 0)
    if what == "replay":
        from . import replay
        main_wrapper(lambda: replay.run(a.arg))
    if what == "selftest":
        from . import selftest
        main_wrapper(lambda: selftest.run(a.tier))
    from . import registry
    fn = registry.CHECKS.get(what.upper())
    if fn is None:
        print("unknown check", what, file=sys.stderr)
        sys.exit(2)
    main_wrapper(lambda: fn(a.tier))


if __name__ == "__main__":
    main()
